/* C01 / C02 / C15 - grace periods of the real flavors: synchronize_rcu() waits for pre-existing
 * readers (litmus, interval and reclamation oracles) and always returns (deadlock / livelock
 * detection by the scheduler).  One source, built once per flavor. */
#include "vrt.h"
#define URCU_API_MAP
#if defined(FLAVOR_MEMB)
#include <urcu/urcu-memb.h>
#elif defined(FLAVOR_MB)
#include <urcu/urcu-mb.h>
#elif defined(FLAVOR_QSBR)
#include <urcu/urcu-qsbr.h>
#elif defined(FLAVOR_BP)
#include <urcu/urcu-bp.h>
#else
#error "flavor?"
#endif

const char *vrt_property_id = "C01";

/* ---- section / grace-period stamps (interval oracle) ------------------------------------------- */
#define MAXSEC 4
/* bookkeeping lives in vrt's notebook so that it is invisible to the memory model (a plain
 * store in the middle of a section would commit the store buffer and hide TSO behaviours) */
#define N_SECB(t, i)	(64 + (t) * 8 + (i) * 2)
#define N_SECE(t, i)	(65 + (t) * 8 + (i) * 2)
#define N_GPC(t, i)	(128 + (t) * 8 + (i) * 2)
#define N_GPR(t, i)	(129 + (t) * 8 + (i) * 2)
#define N_NSEC(t)	(192 + (t))
#define N_NGP(t)	(200 + (t))

static int sec_begin(void)
{
	int t = vrt_tid(), i = (int)vrt_note_inc(N_NSEC(t));

	vrt_note_set(N_SECB(t, i), vrt_now());
	vrt_note_set(N_SECE(t, i), 0);
	return i;
}
static void sec_end(int i) { vrt_note_set(N_SECE(vrt_tid(), i), vrt_now() + 1); }

static void do_sync(void)
{
	int t = vrt_tid(), i = (int)vrt_note_inc(N_NGP(t));

	vrt_note_set(N_GPC(t, i), vrt_now() + 1);	/* first step of the call */
	synchronize_rcu();
	vrt_note_set(N_GPR(t, i), vrt_now());
}

static void check_intervals(const char *what)
{
	int i, j, t, u;

	for (t = 0; t < 8; t++)
		for (i = 0; i < (int)vrt_note_get(N_NGP(t)); i++)
			for (u = 0; u < 8; u++)
				for (j = 0; j < (int)vrt_note_get(N_NSEC(u)); j++) {
					unsigned long sb = vrt_note_get(N_SECB(u, j)), se = vrt_note_get(N_SECE(u, j));
					unsigned long gc = vrt_note_get(N_GPC(t, i)), gr = vrt_note_get(N_GPR(t, i));

					if (!se)
						continue;
					VRT_CHECK(!(sb < gc && gr < se),
						  "%s: synchronize_rcu() of T%d [%lu,%lu] returned while the read-side section of T%d "
						  "[%lu,%lu) that began before the call was still running", what, t, gc, gr, u, sb, se);
				}
}

/* ---- reader-side delimiters per flavor -------------------------------------------------------------- */
#ifdef FLAVOR_QSBR
/* a qsbr section is the span between two quiescent states of an online thread */
#define RD_LOCK()	do { } while (0)
#define RD_UNLOCK()	rcu_quiescent_state()
#else
#define RD_LOCK()	rcu_read_lock()
#define RD_UNLOCK()	rcu_read_unlock()
#endif

/* readers announce that they are registered; updaters start only then (param prereg, default 1):
 * the interesting interleavings then need no preemption just to get a reader registered */
static int nready, nexpected;
static int all_ready(void *a) { (void)a; return nready >= nexpected; }
static void reader_enter(void)
{
	rcu_register_thread();
#ifdef FLAVOR_BP
	rcu_read_lock();	/* bp registers on first use */
	rcu_read_unlock();
#endif
	uatomic_inc(&nready);
}
static void reader_leave(void) { rcu_unregister_thread(); }
static void wait_readers(int n)
{
	nexpected = n;
	if (vrt_param("prereg", 1))
		vrt_await(all_ready, NULL);
}

static int x, y, z, x2, y2;
/* param yield_in_section: a free hand-over in the middle of the section lets updaters start
 * inside it without spending a preemption */
#define MID() do { if (vrt_param("yield_in_section", 0)) vrt_yield(); } while (0)
#define r(k) ((int)vrt_note_get(k))
#define setr(k, v) vrt_note_set(k, (unsigned long)(v))

#define LD(v) uatomic_load(&(v))
#define ST(v, n) uatomic_store(&(v), n)

/* ---- scenario: basic ---------------------------------------------------------------------------------- */
static void *rd_basic(void *a)
{
	int s, k = (int)(long)a;

	reader_enter();
	RD_LOCK();
	s = sec_begin();
	setr(k, LD(x));
	MID();
	setr(k + 1, LD(y));
	sec_end(s);
	RD_UNLOCK();
	reader_leave();
	return NULL;
}

static void updater_reg(void)
{
#ifndef FLAVOR_BP
	if (vrt_param("updater_registered", 0)) {
		rcu_register_thread();
#ifdef FLAVOR_QSBR
		if (vrt_param("updater_registered", 0) == 2)
			rcu_thread_offline();
#endif
	}
#endif
}

static void updater_unreg(void)
{
#ifndef FLAVOR_BP
	if (vrt_param("updater_registered", 0)) {
#ifdef FLAVOR_QSBR
		if (vrt_param("updater_registered", 0) == 2)
			rcu_thread_online();
#endif
		rcu_unregister_thread();
	}
#endif
}

static void run_basic(void)
{
	pthread_t t;

	updater_reg();
	pthread_create(&t, NULL, rd_basic, (void *)0L);
	wait_readers(1);
	ST(x, 1);
	do_sync();
	ST(y, 1);
	pthread_join(t, NULL);
	updater_unreg();
	vrt_outcome((unsigned long)(r(0) * 2 + r(1)));
	VRT_CHECK(!(r(0) == 0 && r(1) == 1), "basic: reader saw the post-grace-period store (y=1) but not the pre-grace-period store (x=0)");
	check_intervals("basic");
}

/* ---- scenario: nested ------------------------------------------------------------------------------------ */
#ifndef FLAVOR_QSBR
static void *rd_nested(void *a)
{
	int s;

	(void)a;
	reader_enter();
	rcu_read_lock();
	s = sec_begin();
	rcu_read_lock();
	setr(0, LD(x));
	rcu_read_unlock();
	MID();
	VRT_CHECK(rcu_read_ongoing(), "nested: rcu_read_ongoing() false inside the outer section");
	setr(1, LD(y));
	sec_end(s);
	rcu_read_unlock();
	VRT_CHECK(!rcu_read_ongoing(), "nested: rcu_read_ongoing() true after the outermost unlock");
	reader_leave();
	return NULL;
}

static void run_nested(void)
{
	pthread_t t;

	pthread_create(&t, NULL, rd_nested, NULL);
	wait_readers(1);
	ST(x, 1);
	do_sync();
	ST(y, 1);
	pthread_join(t, NULL);
	vrt_outcome((unsigned long)(r(0) * 2 + r(1)));
	VRT_CHECK(!(r(0) == 0 && r(1) == 1), "nested: inner unlock ended the section (x=0 then y=1 observed)");
	check_intervals("nested");
}
#endif

/* ---- scenario: two grace periods (both parity flips) ----------------------------------------------------- */
static void *rd_three(void *a)
{
	int s;

	(void)a;
	reader_enter();
	RD_LOCK();
	s = sec_begin();
	setr(0, LD(x));
	MID();
	setr(1, LD(y));
	setr(2, LD(z));
	sec_end(s);
	RD_UNLOCK();
	reader_leave();
	return NULL;
}

static void run_two_gp(void)
{
	pthread_t t;

	pthread_create(&t, NULL, rd_three, NULL);
	wait_readers(1);
	ST(x, 1);
	do_sync();
	ST(y, 1);
	do_sync();
	ST(z, 1);
	pthread_join(t, NULL);
	vrt_outcome((unsigned long)(r(0) * 4 + r(1) * 2 + r(2)));
	VRT_CHECK(!(r(0) == 0 && r(1) == 1), "two_gp: x=0 then y=1 observed in one section");
	VRT_CHECK(!(r(1) == 0 && r(2) == 1), "two_gp: y=0 then z=1 observed in one section");
	VRT_CHECK(!(r(0) == 0 && r(2) == 1), "two_gp: x=0 then z=1 observed in one section");
	check_intervals("two_gp");
}

/* ---- scenario: two readers ----------------------------------------------------------------------------------- */
static void run_two_readers(void)
{
	pthread_t t1, t2;

	pthread_create(&t1, NULL, rd_basic, (void *)0L);
	pthread_create(&t2, NULL, rd_basic, (void *)2L);
	wait_readers(2);
	ST(x, 1);
	do_sync();
	ST(y, 1);
	pthread_join(t1, NULL);
	pthread_join(t2, NULL);
	vrt_outcome((unsigned long)(r(0) * 8 + r(1) * 4 + r(2) * 2 + r(3)));
	VRT_CHECK(!(r(0) == 0 && r(1) == 1), "two_readers: reader 1 saw x=0 then y=1");
	VRT_CHECK(!(r(2) == 0 && r(3) == 1), "two_readers: reader 2 saw x=0 then y=1");
	check_intervals("two_readers");
}

/* ---- scenario: merged grace periods (two concurrent updaters) --------------------------------------------------- */
static void *rd_merged(void *a)
{
	int s;

	(void)a;
	reader_enter();
	RD_LOCK();
	s = sec_begin();
	setr(0, LD(x));
	setr(1, LD(x2));
	MID();
	setr(2, LD(y));
	setr(3, LD(y2));
	sec_end(s);
	RD_UNLOCK();
	reader_leave();
	return NULL;
}

static void *upd2(void *a)
{
	(void)a;
	ST(x2, 1);
	do_sync();
	ST(y2, 1);
	return NULL;
}

static void run_merged(void)
{
	pthread_t t, u;

	pthread_create(&t, NULL, rd_merged, NULL);
	pthread_create(&u, NULL, upd2, NULL);
	wait_readers(1);
	ST(x, 1);
	do_sync();
	ST(y, 1);
	pthread_join(t, NULL);
	pthread_join(u, NULL);
	vrt_outcome((unsigned long)(r(0) * 8 + r(1) * 4 + r(2) * 2 + r(3)));
	VRT_CHECK(!(r(0) == 0 && r(2) == 1), "merged: updater 1's grace period did not wait (x=0, y=1)");
	VRT_CHECK(!(r(1) == 0 && r(3) == 1), "merged: updater 2's grace period did not wait (x2=0, y2=1)");
	check_intervals("merged");
}

/* three concurrent callers, one reader with two sections (C02: leader + two waiters) */
static void *rd_two_sections(void *a)
{
	int s;

	(void)a;
	reader_enter();
	RD_LOCK();
	s = sec_begin();
	setr(0, LD(x));
	sec_end(s);
	RD_UNLOCK();
	RD_LOCK();
	s = sec_begin();
	setr(1, LD(x));
	MID();
	setr(2, LD(y));
	sec_end(s);
	RD_UNLOCK();
	reader_leave();
	return NULL;
}

static void run_two_sections(void)
{
	pthread_t t;

	pthread_create(&t, NULL, rd_two_sections, NULL);
	wait_readers(1);
	ST(x, 1);
	do_sync();
	ST(y, 1);
	pthread_join(t, NULL);
	vrt_outcome((unsigned long)(r(0) * 4 + r(1) * 2 + r(2)));
	VRT_CHECK(!(r(1) == 0 && r(2) == 1), "two_sections: x=0 then y=1 in the second section");
	check_intervals("two_sections");
}

static void *upd_plain(void *a) { (void)a; do_sync(); return NULL; }

static void run_three_callers(void)
{
	pthread_t t, u1, u2;

	pthread_create(&t, NULL, rd_basic, (void *)0L);
	pthread_create(&u1, NULL, upd_plain, NULL);
	pthread_create(&u2, NULL, upd_plain, NULL);
	wait_readers(1);
	ST(x, 1);
	do_sync();
	ST(y, 1);
	pthread_join(t, NULL);
	pthread_join(u1, NULL);
	pthread_join(u2, NULL);
	VRT_CHECK(!(r(0) == 0 && r(1) == 1), "three_callers: x=0 then y=1");
	check_intervals("three_callers");
}

/* ---- scenario: pointer publication / reclamation --------------------------------------------------------------------- */
struct obj { int v; };
static struct obj *gptr;

static void *rd_ptr(void *a)
{
	struct obj *p;
	int s;

	(void)a;
	reader_enter();
	RD_LOCK();
	s = sec_begin();
	p = rcu_dereference(gptr);
	MID();
	if (p) {
		int v = p->v;		/* plain read: faults the use-after-free oracle if reclaimed */

		vrt_outcome((unsigned long)v);
		VRT_CHECK(v == 1 || v == 2, "pointer: reader saw uninitialised object (v=%d)", v);
	}
	sec_end(s);
	RD_UNLOCK();
	reader_leave();
	return NULL;
}

static void run_pointer(void)
{
	pthread_t t;
	struct obj *o1 = malloc(sizeof(*o1)), *o2 = malloc(sizeof(*o2)), *old;

	o1->v = 1;
	rcu_assign_pointer(gptr, o1);
	pthread_create(&t, NULL, rd_ptr, NULL);
	wait_readers(1);
	o2->v = 2;
	old = rcu_xchg_pointer(&gptr, o2);
	do_sync();
	free(old);
	if (vrt_param("second", 0)) {
		old = rcu_xchg_pointer(&gptr, NULL);
		do_sync();
		free(old);
	}
	pthread_join(t, NULL);
	check_intervals("pointer");
}

#ifdef FLAVOR_QSBR
/* qsbr: online; section; quiescent_state; section; offline - updater variants via updater_registered */
static void *rd_qsbr(void *a)
{
	int s;

	(void)a;
	reader_enter();
	s = sec_begin();
	setr(0, LD(x));
	setr(1, LD(y));
	sec_end(s);
	rcu_quiescent_state();
	s = sec_begin();
	setr(2, LD(y));
	setr(3, LD(z));
	sec_end(s);
	rcu_thread_offline();
	/* offline: not a reader; may block here */
	rcu_thread_online();
	s = sec_begin();
	setr(4, LD(z));
	sec_end(s);
	rcu_unregister_thread();
	return NULL;
}

static void run_qsbr(void)
{
	pthread_t t;

	updater_reg();
	pthread_create(&t, NULL, rd_qsbr, NULL);
	wait_readers(1);
	ST(x, 1);
	do_sync();
	ST(y, 1);
	do_sync();
	ST(z, 1);
	pthread_join(t, NULL);
	updater_unreg();
	vrt_outcome((unsigned long)(r(0) * 16 + r(1) * 8 + r(2) * 4 + r(3) * 2 + r(4)));
	VRT_CHECK(!(r(0) == 0 && r(1) == 1), "qsbr: x=0 then y=1 between two quiescent states");
	VRT_CHECK(!(r(2) == 0 && r(3) == 1), "qsbr: y=0 then z=1 between two quiescent states");
	check_intervals("qsbr");
}
#endif

/* ---- C15: registration dynamics ------------------------------------------------------------------------------------------- */
/* reader registers, runs a section, unregisters, registers again, second section */
static void *rd_rereg(void *a)
{
	int s;

	(void)a;
	reader_enter();
	RD_LOCK();
	s = sec_begin();
	setr(0, LD(x));
	setr(1, LD(y));
	sec_end(s);
	RD_UNLOCK();
	reader_leave();
	reader_enter();
	RD_LOCK();
	s = sec_begin();
	setr(2, LD(x));
	setr(3, LD(y));
	sec_end(s);
	RD_UNLOCK();
	reader_leave();
	return NULL;
}

static void run_rereg(void)
{
	pthread_t t, t2;
	int two = (int)vrt_param("two", 0);

	pthread_create(&t, NULL, rd_rereg, NULL);
	if (two)
		pthread_create(&t2, NULL, rd_basic, (void *)4L);
	ST(x, 1);
	do_sync();
	ST(y, 1);
	pthread_join(t, NULL);
	if (two)
		pthread_join(t2, NULL);
	vrt_outcome((unsigned long)(r(0) * 8 + r(1) * 4 + r(2) * 2 + r(3)));
	VRT_CHECK(!(r(0) == 0 && r(1) == 1), "rereg: first section saw x=0 then y=1");
	VRT_CHECK(!(r(2) == 0 && r(3) == 1), "rereg: second section saw x=0 then y=1");
	VRT_CHECK(!(r(4) == 0 && r(5) == 1), "rereg: other reader saw x=0 then y=1");
	check_intervals("rereg");
}

struct vrt_scenario vrt_scenarios[] = {
	{ "basic", run_basic, "reader || updater" },
#ifndef FLAVOR_QSBR
	{ "nested", run_nested, "nested read-side section" },
#endif
	{ "two_gp", run_two_gp, "two consecutive grace periods against one section" },
	{ "two_readers", run_two_readers, "two readers || updater" },
	{ "merged", run_merged, "two concurrent updaters (merged grace periods) || reader" },
	{ "two_sections", run_two_sections, "reader with two sections || updater" },
	{ "three_callers", run_three_callers, "three concurrent synchronize_rcu callers || reader" },
	{ "pointer", run_pointer, "publish / unpublish / reclaim" },
#ifdef FLAVOR_QSBR
	{ "qsbr", run_qsbr, "qsbr online/quiescent/offline" },
#endif
	{ "rereg", run_rereg, "reader registers/unregisters/re-registers around grace periods" },
	{ NULL, NULL, NULL }
};
