/* C01 / C02 / C15 - grace periods of the real flavors: synchronize_rcu() waits for pre-existing
 * readers (litmus, interval and reclamation oracles) and always returns (deadlock / livelock
 * detection by the scheduler).  One source, built once per flavor. */
#ifdef GP_WHITEBOX
/* white-box build (C15): the flavor's source is part of this translation unit, so that the oracle
 * can walk its static registry */
#if defined(FLAVOR_MEMB) || defined(FLAVOR_MB)
#include "urcu.c"
#elif defined(FLAVOR_QSBR)
#include "urcu-qsbr.c"
#else
#include "urcu-bp.c"
#endif
#endif
#include "vrt.h"
#ifndef URCU_API_MAP
#define URCU_API_MAP
#endif
#if defined(FLAVOR_MEMB)
#include <urcu/urcu-memb.h>
#elif defined(FLAVOR_MB)
#include <urcu/urcu-mb.h>
#elif defined(FLAVOR_QSBR)
#include <urcu/urcu-qsbr.h>
#elif defined(FLAVOR_BP)
#include <urcu/urcu-bp.h>
#else
#error "flavor?"
#endif

const char *vrt_property_id = "C01";

/* ---- section / grace-period stamps (interval oracle) ------------------------------------------- */
#define MAXSEC 4
/* bookkeeping lives in vrt's notebook so that it is invisible to the memory model (a plain
 * store in the middle of a section would commit the store buffer and hide TSO behaviours) */
#define N_SECB(t, i)	(64 + (t) * 8 + (i) * 2)
#define N_SECE(t, i)	(65 + (t) * 8 + (i) * 2)
#define N_GPC(t, i)	(128 + (t) * 8 + (i) * 2)
#define N_GPR(t, i)	(129 + (t) * 8 + (i) * 2)
#define N_NSEC(t)	(192 + (t))
#define N_NGP(t)	(200 + (t))

static int sec_begin(void)
{
	int t = vrt_tid(), i = (int)vrt_note_inc(N_NSEC(t));

	vrt_note_set(N_SECB(t, i), vrt_now());
	vrt_note_set(N_SECE(t, i), 0);
	return i;
}
static void sec_end(int i) { vrt_note_set(N_SECE(vrt_tid(), i), vrt_now() + 1); }

#ifdef FLAVOR_BP
#include <urcu/static/urcu-bp.h>
/* bp: rcu_read_ongoing() registers a thread that is not registered yet - the oracle must not change who is a reader */
#define ONGOING_OBSERVABLE() (URCU_TLS(urcu_bp_reader) != NULL)
#else
#define ONGOING_OBSERVABLE() 1
#endif

static void do_sync(void)
{
	int t = vrt_tid(), i = (int)vrt_note_inc(N_NGP(t));
	int obs = ONGOING_OBSERVABLE(), before = obs ? rcu_read_ongoing() : 0;

	vrt_note_set(N_GPC(t, i), vrt_now() + 1);	/* first step of the call */
	synchronize_rcu();
	vrt_note_set(N_GPR(t, i), vrt_now());
	/* qsbr: rcu_read_ongoing() tells whether the thread is online; a caller that was online is a reader again as soon
	 * as the call returns (leader or merged waiter alike), otherwise its following reads are unprotected */
	if (obs)
		VRT_CHECK(!!rcu_read_ongoing() == !!before, "synchronize_rcu() changed the caller's read-side state: rcu_read_ongoing() was %d before "
			  "the call and is %d after it", !!before, !!rcu_read_ongoing());
}

static void check_intervals(const char *what)
{
	int i, j, t, u;

	vrt_sample("%s: reader loads r0..r5 = %lu %lu %lu %lu %lu %lu; first section of T1 [%lu,%lu), first synchronize_rcu of T0 [%lu,%lu]", what,
		   vrt_note_get(0), vrt_note_get(1), vrt_note_get(2), vrt_note_get(3), vrt_note_get(4), vrt_note_get(5),
		   vrt_note_get(N_SECB(1, 0)), vrt_note_get(N_SECE(1, 0)), vrt_note_get(N_GPC(0, 0)), vrt_note_get(N_GPR(0, 0)));
	for (t = 0; t < 8; t++)
		for (i = 0; i < (int)vrt_note_get(N_NGP(t)); i++)
			for (u = 0; u < 8; u++)
				for (j = 0; j < (int)vrt_note_get(N_NSEC(u)); j++) {
					unsigned long sb = vrt_note_get(N_SECB(u, j)), se = vrt_note_get(N_SECE(u, j));
					unsigned long gc = vrt_note_get(N_GPC(t, i)), gr = vrt_note_get(N_GPR(t, i));

					if (!se)
						continue;
					VRT_CHECK(!(sb < gc && gr < se),
						  "%s: synchronize_rcu() of T%d [%lu,%lu] returned while the read-side section of T%d "
						  "[%lu,%lu) that began before the call was still running", what, t, gc, gr, u, sb, se);
				}
}

/* ---- reader-side delimiters per flavor -------------------------------------------------------------- */
#ifdef FLAVOR_QSBR
/* a qsbr section is the span between two quiescent states of an online thread */
#define RD_LOCK()	do { } while (0)
#define RD_UNLOCK()	rcu_quiescent_state()
#else
#define RD_LOCK()	rcu_read_lock()
#define RD_UNLOCK()	rcu_read_unlock()
#endif

/* readers announce that they are registered; updaters start only then (param prereg, default 1):
 * the interesting interleavings then need no preemption just to get a reader registered */
static int nready, nexpected;
static int all_ready(void *a) { (void)a; return nready >= nexpected; }
#define N_REGTID(t)	(300 + (t))	/* pthread id of thread t while it is a registered reader */
static void reader_enter(void)
{
	rcu_register_thread();
#ifdef FLAVOR_BP
	rcu_read_lock();	/* bp registers on first use */
	rcu_read_unlock();
#endif
	vrt_note_set(N_REGTID(vrt_tid()), (unsigned long)pthread_self());
	uatomic_inc(&nready);
}
static void reader_leave(void)
{
	vrt_note_set(N_REGTID(vrt_tid()), 0);	/* bp: the thread exits right after this */
	rcu_unregister_thread();
}

/* white-box oracle: at quiescence the registry holds exactly the registered threads */
static void check_registry(const char *what)
{
#ifdef GP_WHITEBOX
	struct cds_list_head *pos;
	unsigned found = 0;
	int n = 0, t;

	vrt_quiet_begin();
	for (pos = registry.next; pos != &registry; pos = pos->next) {
#ifdef FLAVOR_BP
		unsigned long tid = (unsigned long)cds_list_entry(pos, struct urcu_bp_reader, node)->tid;
#else
		unsigned long tid = (unsigned long)cds_list_entry(pos, __typeof__(URCU_TLS(rcu_reader)), node)->tid;
#endif
		VRT_CHECK(++n <= 16, "%s: the reader registry does not terminate", what);
		VRT_CHECK(pos->next->prev == pos && pos->prev->next == pos, "%s: reader registry links are inconsistent", what);
		for (t = 0; t < 8; t++)
			if (vrt_note_get(N_REGTID(t)) == tid)
				break;
		VRT_CHECK(t < 8, "%s: the registry holds a thread (%#lx) that has unregistered or exited", what, tid);
		VRT_CHECK(!(found & (1u << t)), "%s: T%d is in the registry twice", what, t);
		found |= 1u << t;
	}
	for (t = 0; t < 8; t++)
		VRT_CHECK(!vrt_note_get(N_REGTID(t)) || (found & (1u << t)), "%s: registered thread T%d is missing from the registry", what, t);
	vrt_quiet_end();
#else
	(void)what;
#endif
}
static void wait_readers(int n)
{
	nexpected = n;
	if (vrt_param("prereg", 1))
		vrt_await(all_ready, NULL);
}

static int x, y, z, w, x2, y2;
/* param yield_in_section: a free hand-over in the middle of the section lets updaters start
 * inside it without spending a preemption */
#define MID() do { if (vrt_param("yield_in_section", 0)) vrt_yield(); } while (0)
#define r(k) ((int)vrt_note_get(k))
#define setr(k, v) vrt_note_set(k, (unsigned long)(v))

#define LD(v) uatomic_load(&(v))
#define ST(v, n) uatomic_store(&(v), n)

/* ---- scenario: basic ---------------------------------------------------------------------------------- */
static void *rd_basic(void *a)
{
	int s, k = (int)(long)a;

	reader_enter();
	RD_LOCK();
	s = sec_begin();
	setr(k, LD(x));
	MID();
	setr(k + 1, LD(y));
	sec_end(s);
	RD_UNLOCK();
	reader_leave();
	return NULL;
}

static void updater_reg(void)
{
#ifndef FLAVOR_BP
	if (vrt_param("updater_registered", 0)) {
		rcu_register_thread();
		vrt_note_set(N_REGTID(0), (unsigned long)pthread_self());
#ifdef FLAVOR_QSBR
		if (vrt_param("updater_registered", 0) == 2)
			rcu_thread_offline();
#endif
	}
#endif
}

static void updater_unreg(void)
{
#ifndef FLAVOR_BP
	if (vrt_param("updater_registered", 0)) {
#ifdef FLAVOR_QSBR
		if (vrt_param("updater_registered", 0) == 2)
			rcu_thread_online();
#endif
		vrt_note_set(N_REGTID(0), 0);
		rcu_unregister_thread();
	}
#endif
}

static void run_basic(void)
{
	pthread_t t;

	updater_reg();
	pthread_create(&t, NULL, rd_basic, (void *)0L);
	wait_readers(1);
	ST(x, 1);
	do_sync();
	ST(y, 1);
	pthread_join(t, NULL);
	updater_unreg();
	vrt_outcome((unsigned long)(r(0) * 2 + r(1)));
	VRT_CHECK(!(r(0) == 0 && r(1) == 1), "basic: reader saw the post-grace-period store (y=1) but not the pre-grace-period store (x=0)");
	check_intervals("basic");
}

/* ---- scenario: nested ------------------------------------------------------------------------------------ */
#ifndef FLAVOR_QSBR
static void *rd_nested(void *a)
{
	int s;

	(void)a;
	reader_enter();
	rcu_read_lock();
	s = sec_begin();
	rcu_read_lock();
	setr(0, LD(x));
	rcu_read_unlock();
	MID();
	VRT_CHECK(rcu_read_ongoing(), "nested: rcu_read_ongoing() false inside the outer section");
	setr(1, LD(y));
	sec_end(s);
	rcu_read_unlock();
	VRT_CHECK(!rcu_read_ongoing(), "nested: rcu_read_ongoing() true after the outermost unlock");
	reader_leave();
	return NULL;
}

static void run_nested(void)
{
	pthread_t t;

	pthread_create(&t, NULL, rd_nested, NULL);
	wait_readers(1);
	ST(x, 1);
	do_sync();
	ST(y, 1);
	pthread_join(t, NULL);
	vrt_outcome((unsigned long)(r(0) * 2 + r(1)));
	VRT_CHECK(!(r(0) == 0 && r(1) == 1), "nested: inner unlock ended the section (x=0 then y=1 observed)");
	check_intervals("nested");
}
#endif

/* ---- scenario: two grace periods (both parity flips) ----------------------------------------------------- */
static void *rd_three(void *a)
{
	int s;

	(void)a;
	reader_enter();
	RD_LOCK();
	s = sec_begin();
	setr(0, LD(x));
	MID();
	setr(1, LD(y));
	setr(2, LD(z));
	sec_end(s);
	RD_UNLOCK();
	reader_leave();
	return NULL;
}

static void run_two_gp(void)
{
	pthread_t t;

	pthread_create(&t, NULL, rd_three, NULL);
	wait_readers(1);
	ST(x, 1);
	do_sync();
	ST(y, 1);
	do_sync();
	ST(z, 1);
	pthread_join(t, NULL);
	vrt_outcome((unsigned long)(r(0) * 4 + r(1) * 2 + r(2)));
	VRT_CHECK(!(r(0) == 0 && r(1) == 1), "two_gp: x=0 then y=1 observed in one section");
	VRT_CHECK(!(r(1) == 0 && r(2) == 1), "two_gp: y=0 then z=1 observed in one section");
	VRT_CHECK(!(r(0) == 0 && r(2) == 1), "two_gp: x=0 then z=1 observed in one section");
	check_intervals("two_gp");
}

/* ---- scenario: two readers ----------------------------------------------------------------------------------- */
static void run_two_readers(void)
{
	pthread_t t1, t2;

	pthread_create(&t1, NULL, rd_basic, (void *)0L);
	pthread_create(&t2, NULL, rd_basic, (void *)2L);
	wait_readers(2);
	ST(x, 1);
	do_sync();
	ST(y, 1);
	pthread_join(t1, NULL);
	pthread_join(t2, NULL);
	vrt_outcome((unsigned long)(r(0) * 8 + r(1) * 4 + r(2) * 2 + r(3)));
	VRT_CHECK(!(r(0) == 0 && r(1) == 1), "two_readers: reader 1 saw x=0 then y=1");
	VRT_CHECK(!(r(2) == 0 && r(3) == 1), "two_readers: reader 2 saw x=0 then y=1");
	check_intervals("two_readers");
}

/* ---- scenario: merged grace periods (two concurrent updaters) --------------------------------------------------- */
static void *rd_merged(void *a)
{
	int s;

	(void)a;
	reader_enter();
	RD_LOCK();
	s = sec_begin();
	setr(0, LD(x));
	setr(1, LD(x2));
	MID();
	setr(2, LD(y));
	setr(3, LD(y2));
	sec_end(s);
	RD_UNLOCK();
	reader_leave();
	return NULL;
}

static void *upd2(void *a)
{
	int reg = (int)vrt_param("upd_registered", 0), r0 = 0, r1 = 0;

	(void)a;
#ifdef FLAVOR_BP
	reg = 0;
#endif
	if (reg)
		rcu_register_thread();
	ST(x2, 1);
	do_sync();
	ST(y2, 1);
	if (reg) {
		/* a registered (qsbr: online) caller is itself a reader right after its synchronize_rcu() returns */
		int s;

		RD_LOCK();
		s = sec_begin();
		r0 = LD(x);
		MID();
		r1 = LD(y);
		sec_end(s);
		RD_UNLOCK();
		VRT_CHECK(!(r0 == 0 && r1 == 1), "merged: a registered caller of synchronize_rcu() then saw y=1 but x=0 in its own section");
		rcu_unregister_thread();
	}
	return NULL;
}

static void run_merged(void)
{
	pthread_t t, u;

	pthread_create(&t, NULL, rd_merged, NULL);
	pthread_create(&u, NULL, upd2, NULL);
	wait_readers(1);
	ST(x, 1);
	do_sync();
	ST(y, 1);
	pthread_join(t, NULL);
	pthread_join(u, NULL);
	vrt_outcome((unsigned long)(r(0) * 8 + r(1) * 4 + r(2) * 2 + r(3)));
	VRT_CHECK(!(r(0) == 0 && r(2) == 1), "merged: updater 1's grace period did not wait (x=0, y=1)");
	VRT_CHECK(!(r(1) == 0 && r(3) == 1), "merged: updater 2's grace period did not wait (x2=0, y2=1)");
	check_intervals("merged");
}

/* three concurrent callers, one reader with two sections (C02: leader + two waiters) */
static void *rd_two_sections(void *a)
{
	int s;

	(void)a;
	reader_enter();
	RD_LOCK();
	s = sec_begin();
	setr(0, LD(x));
	sec_end(s);
	RD_UNLOCK();
	RD_LOCK();
	s = sec_begin();
	setr(1, LD(x));
	MID();
	setr(2, LD(y));
	sec_end(s);
	RD_UNLOCK();
	reader_leave();
	return NULL;
}

static void run_two_sections(void)
{
	pthread_t t;

	pthread_create(&t, NULL, rd_two_sections, NULL);
	wait_readers(1);
	ST(x, 1);
	do_sync();
	ST(y, 1);
	pthread_join(t, NULL);
	vrt_outcome((unsigned long)(r(0) * 4 + r(1) * 2 + r(2)));
	VRT_CHECK(!(r(1) == 0 && r(2) == 1), "two_sections: x=0 then y=1 in the second section");
	check_intervals("two_sections");
}

static void *upd_plain(void *a)
{
	int reg = (int)vrt_param("upd_registered", 0);

	(void)a;
#ifdef FLAVOR_BP
	reg = 0;
#endif
	if (reg)
		rcu_register_thread();
	do_sync();
	if (reg)
		rcu_unregister_thread();
	return NULL;
}

static void run_three_callers(void)
{
	pthread_t t, u1, u2;

	pthread_create(&t, NULL, rd_basic, (void *)0L);
	pthread_create(&u1, NULL, upd_plain, NULL);
	pthread_create(&u2, NULL, upd_plain, NULL);
	wait_readers(1);
	ST(x, 1);
	do_sync();
	ST(y, 1);
	pthread_join(t, NULL);
	pthread_join(u1, NULL);
	pthread_join(u2, NULL);
	VRT_CHECK(!(r(0) == 0 && r(1) == 1), "three_callers: x=0 then y=1");
	check_intervals("three_callers");
}

/* ---- scenario: pointer publication / reclamation --------------------------------------------------------------------- */
struct obj { int v; };
static struct obj *gptr;

static void *rd_ptr(void *a)
{
	struct obj *p;
	int s;

	(void)a;
	reader_enter();
	RD_LOCK();
	s = sec_begin();
	p = rcu_dereference(gptr);
	MID();
	if (p) {
		int v = p->v;		/* plain read: faults the use-after-free oracle if reclaimed */

		vrt_outcome((unsigned long)v);
		VRT_CHECK(v == 1 || v == 2, "pointer: reader saw uninitialised object (v=%d)", v);
	}
	sec_end(s);
	RD_UNLOCK();
	reader_leave();
	return NULL;
}

static void run_pointer(void)
{
	pthread_t t;
	struct obj *o1 = malloc(sizeof(*o1)), *o2 = malloc(sizeof(*o2)), *old;

	o1->v = 1;
	rcu_assign_pointer(gptr, o1);
	pthread_create(&t, NULL, rd_ptr, NULL);
	wait_readers(1);
	o2->v = 2;
	old = rcu_xchg_pointer(&gptr, o2);
	do_sync();
	free(old);
	if (vrt_param("second", 0)) {
		old = rcu_xchg_pointer(&gptr, NULL);
		do_sync();
		free(old);
	}
	pthread_join(t, NULL);
	check_intervals("pointer");
}

#ifdef FLAVOR_QSBR
/* qsbr: online; section; quiescent_state; section; offline - updater variants via updater_registered */
static void *rd_qsbr(void *a)
{
	int s;

	(void)a;
	reader_enter();
	s = sec_begin();
	setr(0, LD(x));
	setr(1, LD(y));
	sec_end(s);
	rcu_quiescent_state();
	s = sec_begin();
	setr(2, LD(y));
	setr(3, LD(z));
	sec_end(s);
	rcu_thread_offline();
	/* offline: not a reader; may block here */
	rcu_thread_online();
	s = sec_begin();
	setr(4, LD(z));
	sec_end(s);
	rcu_unregister_thread();
	return NULL;
}

static void run_qsbr(void)
{
	pthread_t t;

	updater_reg();
	pthread_create(&t, NULL, rd_qsbr, NULL);
	wait_readers(1);
	ST(x, 1);
	do_sync();
	ST(y, 1);
	do_sync();
	ST(z, 1);
	pthread_join(t, NULL);
	updater_unreg();
	vrt_outcome((unsigned long)(r(0) * 16 + r(1) * 8 + r(2) * 4 + r(3) * 2 + r(4)));
	VRT_CHECK(!(r(0) == 0 && r(1) == 1), "qsbr: x=0 then y=1 between two quiescent states");
	VRT_CHECK(!(r(2) == 0 && r(3) == 1), "qsbr: y=0 then z=1 between two quiescent states");
	check_intervals("qsbr");
}
#endif

#ifdef FLAVOR_QSBR
/* qsbr: the reader stays registered and online and keeps reporting quiescent states (nothing else).  The first report after the
 * grace period started is the only one that does anything - later ones return early because the reader's counter is current - so
 * it alone must wake an updater which went to sleep waiting for this reader. */
#define N_QSGO 356
static int qsgo_pred(void *a) { (void)a; return (int)vrt_note_get(N_QSGO); }

static void *rd_qs_idle(void *a)
{
	(void)a;
	reader_enter();
	setr(0, LD(x));
	MID();
	while (!qsgo_pred(NULL)) {
		rcu_quiescent_state();
		vrt_yield();
	}
	reader_leave();
	return NULL;
}

static void run_qs_idle(void)
{
	pthread_t t;

	pthread_create(&t, NULL, rd_qs_idle, NULL);
	wait_readers(1);
	ST(x, 1);
	do_sync();		/* must return: the reader's quiescent-state report has to wake us if we sleep */
	ST(y, 1);
	vrt_note_set(N_QSGO, 1);
	pthread_join(t, NULL);
}
#endif

/* ---- C15: registration dynamics ------------------------------------------------------------------------------------------- */
/* reader registers, runs a section, unregisters, registers again, second section */
static void *rd_rereg(void *a)
{
	int s;

	(void)a;
	reader_enter();
	RD_LOCK();
	s = sec_begin();
	setr(0, LD(x));
	setr(1, LD(y));
	sec_end(s);
	RD_UNLOCK();
	reader_leave();
	reader_enter();
	RD_LOCK();
	s = sec_begin();
	setr(2, LD(x));
	setr(3, LD(y));
	sec_end(s);
	RD_UNLOCK();
	reader_leave();
	return NULL;
}

static void run_rereg(void)
{
	pthread_t t, t2;
	int two = (int)vrt_param("two", 0);

	pthread_create(&t, NULL, rd_rereg, NULL);
	if (two)
		pthread_create(&t2, NULL, rd_basic, (void *)4L);
	ST(x, 1);
	do_sync();
	ST(y, 1);
	pthread_join(t, NULL);
	if (two)
		pthread_join(t2, NULL);
	vrt_outcome((unsigned long)(r(0) * 8 + r(1) * 4 + r(2) * 2 + r(3)));
	VRT_CHECK(!(r(0) == 0 && r(1) == 1), "rereg: first section saw x=0 then y=1");
	VRT_CHECK(!(r(2) == 0 && r(3) == 1), "rereg: second section saw x=0 then y=1");
	VRT_CHECK(!(r(4) == 0 && r(5) == 1), "rereg: other reader saw x=0 then y=1");
	check_intervals("rereg");
	do_sync();
	check_registry("rereg");
}

/* ---- C15: more registration dynamics --------------------------------------------------------------------------------------- */
#ifdef FLAVOR_BP
#include <urcu/static/urcu-bp.h>
#define MY_SLOT() ((unsigned long)URCU_TLS(urcu_bp_reader))
#else
#define MY_SLOT() 0UL
#endif
#define N_SLOT(t)	(320 + (t))	/* reader slot address of thread t while it is alive (bp) */
#define N_SLOTLOG(i)	(340 + (i))	/* slot addresses in order of registration */
#define N_NSLOT		350
#define N_GO 351
static int go_pred(void *a) { (void)a; return (int)vrt_note_get(N_GO); }

/* a thread that has left (unregistered / offline / exited) must not be waited for, even if it then blocks */
static void *rd_leave_block(void *a)
{
	int s, mode = (int)(long)a;

	reader_enter();
	RD_LOCK();
	s = sec_begin();
	setr(0, LD(x));
	setr(1, LD(y));
	sec_end(s);
	RD_UNLOCK();
#ifdef FLAVOR_QSBR
	if (mode == 1) {
		rcu_thread_offline();
		vrt_await(go_pred, NULL);
		rcu_thread_online();
		s = sec_begin();
		setr(2, LD(x));
		setr(3, LD(y));
		sec_end(s);
		rcu_quiescent_state();
		reader_leave();
		return NULL;
	}
#endif
	(void)mode;
	reader_leave();
#ifndef FLAVOR_BP
	vrt_await(go_pred, NULL);	/* blocked for good while not a reader */
#endif
	return NULL;
}

static void run_leave_block(void)
{
	pthread_t t;

	pthread_create(&t, NULL, rd_leave_block, (void *)vrt_param("offline", 0));
	wait_readers(1);
	ST(x, 1);
	do_sync();		/* must return although the other thread stays blocked */
	ST(y, 1);
	do_sync();
	vrt_note_set(N_GO, 1);
	pthread_join(t, NULL);
	VRT_CHECK(!(r(0) == 0 && r(1) == 1), "leave_block: x=0 then y=1");
	VRT_CHECK(!(r(2) == 0 && r(3) == 1), "leave_block: second section saw x=0 then y=1");
	check_intervals("leave_block");
	check_registry("leave_block");
}

/* a thread registers while a grace period is waiting for another reader (registry lock dropped) and STAYS registered: it must be in
 * the registry when that grace period has finished, and the next grace period must wait for its section */
#define N_SYNC1		352
#define N_REG2		353
#define N_GP1DONE	354
#define N_R2IN		355
static int sync1_pred(void *a) { (void)a; return (int)vrt_note_get(N_SYNC1); }
static int reg2_pred(void *a) { (void)a; return (int)vrt_note_get(N_REG2); }
static int gp1done_pred(void *a) { (void)a; return (int)vrt_note_get(N_GP1DONE); }
static int r2in_pred(void *a) { (void)a; return (int)vrt_note_get(N_R2IN); }

static void *rd_hold_until_reg2(void *a)
{
	int s;

	(void)a;
	reader_enter();
	RD_LOCK();
	s = sec_begin();
	setr(0, LD(x));
	vrt_await(reg2_pred, NULL);	/* the first grace period is held open until the late thread has registered */
	setr(1, LD(y));
	sec_end(s);
	RD_UNLOCK();
	/* stays registered (idle) until the updater has inspected the registry: nobody modifies it at that moment */
#ifdef FLAVOR_QSBR
	rcu_thread_offline();
	vrt_await(gp1done_pred, NULL);
	rcu_thread_online();
#else
	vrt_await(gp1done_pred, NULL);
#endif
	reader_leave();
	return NULL;
}

static void *rd_late_register(void *a)
{
	int s;

	(void)a;
	vrt_await(sync1_pred, NULL);
	reader_enter();
	vrt_note_set(N_REG2, 1);
#ifdef FLAVOR_QSBR
	rcu_thread_offline();		/* an online qsbr thread that blocks would itself hold the first grace period */
	vrt_await(gp1done_pred, NULL);
	rcu_thread_online();
#else
	vrt_await(gp1done_pred, NULL);
#endif
	RD_LOCK();
	s = sec_begin();
	setr(2, LD(z));
	vrt_note_set(N_R2IN, 1);
	MID();
	setr(3, LD(w));
	sec_end(s);
	RD_UNLOCK();
	reader_leave();
	return NULL;
}

static void run_late_register(void)
{
	pthread_t t1, t2;

	updater_reg();
	pthread_create(&t1, NULL, rd_hold_until_reg2, NULL);
	wait_readers(1);
	pthread_create(&t2, NULL, rd_late_register, NULL);
	ST(x, 1);
	vrt_note_set(N_SYNC1, 1);
	do_sync();
	ST(y, 1);
	/* the registry is only comparable with the harness's own book-keeping when nobody is inside a registration: the late thread
	 * announces itself after it has registered AND noted it (the grace period above may have ended before it even started) */
	vrt_await(reg2_pred, NULL);
	check_registry("late_register (after the grace period during which the thread registered)");
	vrt_note_set(N_GP1DONE, 1);
	vrt_await(r2in_pred, NULL);
	ST(z, 1);
	do_sync();
	ST(w, 1);
	pthread_join(t1, NULL);
	pthread_join(t2, NULL);
	updater_unreg();
	VRT_CHECK(!(r(0) == 0 && r(1) == 1), "late_register: first reader saw x=0 then y=1");
	VRT_CHECK(!(r(2) == 0 && r(3) == 1), "late_register: the thread that registered during the previous grace period saw z=0 then w=1");
	check_intervals("late_register");
}

/* n readers come and go while a grace period runs; bp: the registry grows past its initial capacity */
static void *rd_churn(void *a)
{
	int s, k = (int)(long)a, t = vrt_tid(), u;
	unsigned long slot;

	reader_enter();
	RD_LOCK();
	s = sec_begin();
	slot = MY_SLOT();
	if (slot) {
		for (u = 0; u < 8; u++)
			VRT_CHECK(u == t || vrt_note_get(N_SLOT(u)) != slot, "churn: live threads T%d and T%d share reader slot %#lx", t, u, slot);
		vrt_note_set(N_SLOT(t), slot);
		vrt_note_set(N_SLOTLOG(vrt_note_inc(N_NSLOT) & 7), slot);
	}
	setr(k, LD(x));
	MID();
	setr(k + 1, LD(y));
#ifndef FLAVOR_QSBR
	VRT_CHECK(rcu_read_ongoing(), "churn: rcu_read_ongoing() false inside a section (reader state moved or lost)");
#endif
	VRT_CHECK(MY_SLOT() == slot, "churn: reader slot of T%d moved from %#lx to %#lx", t, slot, MY_SLOT());
	sec_end(s);
	RD_UNLOCK();
	if (vrt_param("second_section", 0)) {
		RD_LOCK();
		s = sec_begin();
		VRT_CHECK(MY_SLOT() == slot, "churn: reader slot of T%d moved from %#lx to %#lx", t, slot, MY_SLOT());
		(void)LD(x);
		sec_end(s);
		RD_UNLOCK();
	}
	vrt_note_set(N_SLOT(t), 0);
	reader_leave();
	return NULL;
}

static void run_churn(void)
{
	pthread_t th[5];
	int n = (int)vrt_param("n", 3), i, pre = (int)vrt_param("prestart", 1);

#ifdef FLAVOR_BP
	if (vrt_param("main_registered", 1)) {
		rcu_read_lock();
		rcu_read_unlock();
		vrt_note_set(N_REGTID(0), (unsigned long)pthread_self());
	}
#endif
	for (i = 0; i < pre && i < n; i++)
		pthread_create(&th[i], NULL, rd_churn, (void *)(long)(2 * i));
	wait_readers(pre < n ? pre : n);
	ST(x, 1);
	for (; i < n; i++)	/* late comers register while the grace period may already be running */
		pthread_create(&th[i], NULL, rd_churn, (void *)(long)(2 * i));
	do_sync();
	ST(y, 1);
	for (i = 0; i < n; i++)
		pthread_join(th[i], NULL);
	for (i = 0; i < n; i++)
		VRT_CHECK(!(r(2 * i) == 0 && r(2 * i + 1) == 1), "churn: reader %d saw x=0 then y=1", i);
	check_intervals("churn");
	do_sync();		/* everybody has left: must not wait for anyone */
	check_registry("churn");
}

#ifdef FLAVOR_BP
/* threads that run one after the other reuse the slot of the exited one */
static void *rd_once(void *a)
{
	(void)a;
	rcu_read_lock();
	vrt_note_set(N_SLOTLOG(vrt_note_inc(N_NSLOT) & 7), MY_SLOT());
	(void)LD(x);
	rcu_read_unlock();
	return NULL;
}

static void run_slot_reuse(void)
{
	pthread_t t;
	int n = (int)vrt_param("n", 4), i;

	rcu_read_lock();
	rcu_read_unlock();
	vrt_note_set(N_REGTID(0), (unsigned long)pthread_self());
	for (i = 0; i < n; i++) {
		pthread_create(&t, NULL, rd_once, NULL);
		if (i == 1)
			do_sync();	/* a grace period while the thread is coming or going */
		pthread_join(t, NULL);
	}
	for (i = 1; i < n; i++)
		VRT_CHECK(vrt_note_get(N_SLOTLOG(i)) == vrt_note_get(N_SLOTLOG(0)),
			  "slot_reuse: thread %d got reader slot %#lx, the exited thread's slot %#lx was not reused", i,
			  vrt_note_get(N_SLOTLOG(i)), vrt_note_get(N_SLOTLOG(0)));
	VRT_CHECK(vrt_note_get(N_SLOTLOG(0)) != MY_SLOT(), "slot_reuse: a new thread was given the live main thread's slot");
	do_sync();
	check_registry("slot_reuse");
}
#endif

/* a slot is freed (thread exits) while a later-registered thread is still alive inside a section, then a new
 * thread registers: it must not be given the live thread's slot; the grace period waits for the live one */
#define N_GOK(k) (360 + (k))
static int gok_pred(void *a) { return (int)vrt_note_get(N_GOK((int)(long)a)); }
static void *rd_hold(void *a)
{
	int s, k = (int)(long)a, t = vrt_tid(), u;
	unsigned long slot;

	reader_enter();
	RD_LOCK();
	s = sec_begin();
	slot = MY_SLOT();
	if (slot) {
		for (u = 0; u < 8; u++)
			VRT_CHECK(u == t || vrt_note_get(N_SLOT(u)) != slot, "slot_hole: live threads T%d and T%d share reader slot %#lx", t, u, slot);
		vrt_note_set(N_SLOT(t), slot);
		vrt_note_set(N_SLOTLOG(vrt_note_inc(N_NSLOT) & 7), slot);
	}
	setr(k, LD(x));
	vrt_await(gok_pred, (void *)(long)k);
	setr(k + 1, LD(y));
	VRT_CHECK(MY_SLOT() == slot, "slot_hole: reader slot of T%d moved", t);
#ifndef FLAVOR_QSBR
	VRT_CHECK(rcu_read_ongoing(), "slot_hole: rcu_read_ongoing() false inside a section");
#endif
	sec_end(s);
	RD_UNLOCK();
	vrt_note_set(N_SLOT(t), 0);
	reader_leave();
	return NULL;
}

static void *rd_release(void *a)
{
	rd_churn(a);
	vrt_note_set(N_GOK(2), 1);	/* let the held reader finish */
	return NULL;
}

static void run_slot_hole(void)
{
	pthread_t a, b, c;

#ifdef FLAVOR_BP
	rcu_read_lock();
	rcu_read_unlock();
	vrt_note_set(N_REGTID(0), (unsigned long)pthread_self());
#endif
	pthread_create(&a, NULL, rd_hold, (void *)0L);
	pthread_create(&b, NULL, rd_hold, (void *)2L);
	wait_readers(2);
	vrt_note_set(N_GOK(0), 1);
	pthread_join(a, NULL);		/* first slot free again, second still in use by a thread inside a section */
	pthread_create(&c, NULL, rd_release, (void *)4L);
	ST(x, 1);
	do_sync();			/* must wait for the held reader */
	ST(y, 1);
	pthread_join(b, NULL);
	pthread_join(c, NULL);
	VRT_CHECK(!(r(2) == 0 && r(3) == 1), "slot_hole: held reader saw x=0 then y=1");
	VRT_CHECK(!(r(4) == 0 && r(5) == 1), "slot_hole: late reader saw x=0 then y=1");
	check_intervals("slot_hole");
	do_sync();
	check_registry("slot_hole");
#ifdef FLAVOR_BP
	{
		/* never more than three threads (main + two) were registered at once: the third thread must have been given the slot the first
		 * one released (its only chance, the later slot is still occupied), not a fresh one */
		unsigned long seen[9];
		int n = 0, i, j, nlog = (int)vrt_note_get(N_NSLOT);

		seen[n++] = MY_SLOT();
		for (i = 0; i < nlog && i < 8; i++) {
			unsigned long sl = vrt_note_get(N_SLOTLOG(i));

			for (j = 0; j < n && seen[j] != sl; j++)
				;
			if (j == n)
				seen[n++] = sl;
		}
		VRT_CHECK(n <= 3, "slot_hole: %d distinct reader slots were handed out although at most 3 threads were registered at any time: the "
			  "slot of the exited thread was not reused", n);
	}
#endif
}

/* ---- C19: read-side sections in signal handlers ---------------------------------------------------------------------------- */
#ifndef FLAVOR_QSBR
#define N_HCNT 352
#define N_EXITING(t) (370 + (t))
static void sig_handler(void)
{
	int before, s, n = (int)vrt_note_inc(N_HCNT), a, b;

#ifndef FLAVOR_BP
	/* memb / mb: only registered threads may run read-side sections; the application registered T0 and the reader.  A
	 * process-directed signal handled by one of the library's own helper threads would run this section unprotected:
	 * the library keeps every signal blocked in the threads it creates */
	VRT_CHECK(vrt_note_get(N_REGTID(vrt_tid())) || vrt_tid() == 0,
		  "signal handler ran on T%d, a thread the library created (call_rcu / defer_rcu helper) and that is not a registered reader: "
		  "its read-side section is not covered by any grace period", vrt_tid());
#endif
	before = rcu_read_ongoing();

	rcu_read_lock();
	s = sec_begin();
	if (MY_SLOT()) {
		unsigned long prev = vrt_note_get(N_SLOT(vrt_tid()));

		VRT_CHECK(!prev || prev == MY_SLOT(), "signal handler: reader slot of T%d changed from %#lx to %#lx (registered twice)",
			  vrt_tid(), prev, MY_SLOT());
		if (!vrt_note_get(N_EXITING(vrt_tid())))
			vrt_note_set(N_SLOT(vrt_tid()), MY_SLOT());
	}
	a = LD(x);
	b = LD(y);
	sec_end(s);
	VRT_CHECK(rcu_read_ongoing(), "signal handler: rcu_read_ongoing() false inside the handler's section");
	rcu_read_unlock();
	VRT_CHECK(!!rcu_read_ongoing() == !!before, "signal handler: rcu_read_ongoing() was %d before the handler and is %d after it",
		  !!before, !!rcu_read_ongoing());
	vrt_outcome((unsigned long)(a * 2 + b + 8 * n));
	VRT_CHECK(!(a == 0 && b == 1), "signal handler: its section saw y=1 (post grace period) but x=0 (pre grace period)");
}

/* memb / mb: the contract covers registered threads only, so the signal is blocked around
 * (un)registration; bp registers lazily and must cope with the signal at any time */
static void sig_block(int how)
{
#ifndef FLAVOR_BP
	sigset_t set;

	sigemptyset(&set);
	sigaddset(&set, SIGUSR1);
	pthread_sigmask(how, &set, NULL);
#else
	(void)how;
#endif
}

static void *rd_sig(void *a)
{
	int s, nest = (int)(long)a;

	reader_enter();
	sig_block(SIG_UNBLOCK);
	VRT_CHECK(!rcu_read_ongoing(), "sig: rcu_read_ongoing() true outside any section");
	rcu_read_lock();
	if (nest)
		rcu_read_lock();
	s = sec_begin();
	if (MY_SLOT()) {
		unsigned long prev = vrt_note_get(N_SLOT(vrt_tid()));

		VRT_CHECK(!prev || prev == MY_SLOT(), "sig: reader slot of T%d changed from %#lx to %#lx (registered twice)", vrt_tid(), prev,
			  MY_SLOT());
		vrt_note_set(N_SLOT(vrt_tid()), MY_SLOT());
	}
	setr(0, LD(x));
	MID();
	setr(1, LD(y));
	VRT_CHECK(rcu_read_ongoing(), "sig: rcu_read_ongoing() false inside the section");
	sec_end(s);
	if (nest)
		rcu_read_unlock();
	rcu_read_unlock();
	VRT_CHECK(!rcu_read_ongoing(), "sig: rcu_read_ongoing() true after the outermost unlock");
	sig_block(SIG_BLOCK);
	/* from here on the thread exits: bp unregisters it in the key destructor, and a handler that runs even later
	 * legitimately registers it again, possibly in another slot */
	vrt_note_set(N_SLOT(vrt_tid()), 0);
	vrt_note_set(N_EXITING(vrt_tid()), 1);
	reader_leave();
	return NULL;
}

static struct rcu_head sig_head;
static void sig_cb(struct rcu_head *h) { (void)h; vrt_note_inc(353); }

static void dummy_defer_fct(void *p) { (void)p; }

static void run_sig(void)
{
	pthread_t t;
	int target = (int)vrt_param("target", 1);	/* 1: reader thread, 2: updater (main) thread, 3: both, 7: every thread of the
							 * process that does not block the signal (process-directed signal) */

	sig_block(SIG_BLOCK);		/* inherited by the reader thread */
#ifndef FLAVOR_BP
	rcu_register_thread();		/* the updater's handler uses the read side too */
#else
	if (vrt_param("main_registered", 1)) {
		rcu_read_lock();
		rcu_read_unlock();
	}
#endif
	if (vrt_param("helpers", 0)) {
		/* library helper threads (call_rcu helper, defer_rcu reclaimer) exist and are created while the application
		 * itself does not block the signal: the library must keep it blocked in them, they are not registered readers */
		sig_block(SIG_UNBLOCK);
		(void)get_default_call_rcu_data();
		rcu_defer_register_thread();
		defer_rcu(dummy_defer_fct, NULL);
		sig_block(SIG_BLOCK);
	}
	vrt_signal_setup(target == 7 ? 0xffffu : ((target & 1 ? 2u : 0u) | (target & 2 ? 1u : 0u)), sig_handler);
	pthread_create(&t, NULL, rd_sig, (void *)vrt_param("nest", 0));
	sig_block(SIG_UNBLOCK);
#ifdef FLAVOR_BP
	if (vrt_param("forkh", 0)) {
		/* the fork handlers take both library mutexes: a handler that runs inside them on a thread that is not yet
		 * registered registers it (registry lock) - the handlers must keep the signal out while they hold the locks */
		urcu_bp_before_fork();
		urcu_bp_after_fork_parent();
	}
#endif
	wait_readers(1);
	ST(x, 1);
	if (vrt_param("callrcu", 0)) {
		call_rcu(&sig_head, sig_cb);
		rcu_barrier();
		VRT_CHECK(vrt_note_get(353) == 1, "sig: callback queued by an interrupted call_rcu ran %lu times", vrt_note_get(353));
	} else
		do_sync();
	ST(y, 1);
	sig_block(SIG_BLOCK);
	pthread_join(t, NULL);
	vrt_signal_setup(0, NULL);
	if (vrt_param("helpers", 0))
		rcu_defer_unregister_thread();
#ifndef FLAVOR_BP
	rcu_unregister_thread();
#endif
	vrt_outcome((unsigned long)(r(0) * 2 + r(1)));
	VRT_CHECK(!(r(0) == 0 && r(1) == 1), "sig: interrupted section saw x=0 then y=1");
	if (!vrt_param("callrcu", 0))
		check_intervals("sig");
}
#endif

#ifdef FLAVOR_BP
/* bp: a signal that arrives while the fork handlers keep signals blocked stays pending across fork() and is delivered when the
 * mask is restored - in the parent and in the child, on a thread that may not be registered yet (its handler then registers it) */
static void run_sig_fork(void)
{
	pid_t pid;

	if (vrt_param("main_registered", 0)) {
		rcu_read_lock();
		rcu_read_unlock();
	}
	vrt_signal_setup(1u, sig_handler);
	urcu_bp_before_fork();
	pid = fork();
	if (pid == 0)
		urcu_bp_after_fork_child();
	else
		urcu_bp_after_fork_parent();
	rcu_read_lock();
	(void)LD(x);
	rcu_read_unlock();
	ST(x, 1);
	do_sync();
	ST(y, 1);
	vrt_signal_setup(0, NULL);
}
#endif

/* ---- C17: the read side of a registered thread is wait-free -------------------------------------------------------------- */
static void *upd_victim(void *a)
{
	(void)a;
	ST(x, 1);
	do_sync();
	ST(y, 1);
	if (vrt_param("two_gp", 0)) {
		do_sync();
		ST(z, 1);
	}
	return NULL;
}

static void run_solo_reader(void)
{
	pthread_t u, r;
	int with_reader = (int)vrt_param("reader", 0), i, a, b;
	unsigned long bound = (unsigned long)vrt_param("bound", 12);

	rcu_register_thread();
#ifdef FLAVOR_BP
	rcu_read_lock();	/* registered */
	rcu_read_unlock();
#endif
	if (with_reader)
		pthread_create(&r, NULL, rd_basic, (void *)2L);
	pthread_create(&u, NULL, upd_victim, NULL);
#ifdef FLAVOR_QSBR
	if (!vrt_param("hold", 0)) {
		rcu_thread_offline();	/* do not hold the victims back while they run up to their suspension point */
		vrt_yield();
		vrt_solo_begin("rcu_thread_online (qsbr)", bound);
		rcu_thread_online();
		vrt_solo_end();
	} else
		vrt_yield();		/* online: the updater ends up waiting for us (spinning, then asleep on its futex) */
#else
	if (vrt_param("hold", 0))
		rcu_read_lock();	/* the updater ends up waiting for us (spinning, then asleep on its futex) */
	vrt_yield();		/* the updater (and reader) run; a preemption freezes them anywhere */
	if (vrt_param("hold", 0)) {
		vrt_yield();
		vrt_solo_begin("nested rcu_read_lock/unlock + outermost rcu_read_unlock (wakes the updater)", 2 * bound);
		rcu_read_lock();
		rcu_read_unlock();
		rcu_read_unlock();
		vrt_solo_end();
	}
#endif
	for (i = 0; i < 2; i++) {
		int s;

#ifdef FLAVOR_QSBR
		s = sec_begin();
		a = LD(x);
		b = LD(y);
		sec_end(s);
		vrt_solo_begin("rcu_quiescent_state (qsbr)", bound);
		rcu_quiescent_state();
		vrt_solo_end();
#else
		vrt_solo_begin("rcu_read_lock", bound);
		rcu_read_lock();
		vrt_solo_end();
		s = sec_begin();
		a = LD(x);
		b = LD(y);
		sec_end(s);
		vrt_solo_begin("rcu_read_unlock", bound);
		rcu_read_unlock();
		vrt_solo_end();
#endif
		VRT_CHECK(!(a == 0 && b == 1), "solo_reader: x=0 then y=1");
	}
#ifdef FLAVOR_QSBR
	vrt_solo_begin("rcu_thread_offline (qsbr)", bound);
	rcu_thread_offline();
	vrt_solo_end();
#endif
	pthread_join(u, NULL);
	if (with_reader)
		pthread_join(r, NULL);
#ifdef FLAVOR_QSBR
	rcu_thread_online();
#endif
	rcu_unregister_thread();
	check_intervals("solo_reader");
}

#ifdef FLAVOR_BP
/* bp: the fork handlers may be called while other threads run grace periods and read-side sections (no fork needed to
 * see a lock-order problem between the handlers and synchronize_rcu) */
static void run_bp_fork_handlers(void)
{
	pthread_t r, u;
	int n = (int)vrt_param("n", 1), i;

	rcu_read_lock();
	rcu_read_unlock();
	pthread_create(&r, NULL, rd_basic, (void *)0L);
	wait_readers(1);
	pthread_create(&u, NULL, upd_victim, NULL);
	for (i = 0; i < n; i++) {
		urcu_bp_before_fork();
		urcu_bp_after_fork_parent();
	}
	pthread_join(u, NULL);
	pthread_join(r, NULL);
	VRT_CHECK(!(r(0) == 0 && r(1) == 1), "bp_fork_handlers: x=0 then y=1");
	check_intervals("bp_fork_handlers");
}
#endif

struct vrt_scenario vrt_scenarios[] = {
	{ "basic", run_basic, "reader || updater" },
#ifndef FLAVOR_QSBR
	{ "nested", run_nested, "nested read-side section" },
#endif
	{ "two_gp", run_two_gp, "two consecutive grace periods against one section" },
	{ "two_readers", run_two_readers, "two readers || updater" },
	{ "merged", run_merged, "two concurrent updaters (merged grace periods) || reader" },
	{ "two_sections", run_two_sections, "reader with two sections || updater" },
	{ "three_callers", run_three_callers, "three concurrent synchronize_rcu callers || reader" },
	{ "pointer", run_pointer, "publish / unpublish / reclaim" },
#ifdef FLAVOR_QSBR
	{ "qsbr", run_qsbr, "qsbr online/quiescent/offline" },
#endif
	{ "rereg", run_rereg, "reader registers/unregisters/re-registers around grace periods" },
	{ "solo_reader", run_solo_reader, "C17: read-side primitives of a registered thread with the updater frozen at every step" },
#ifdef FLAVOR_BP
	{ "bp_fork_handlers", run_bp_fork_handlers, "bp: before_fork / after_fork_parent || synchronize_rcu || reader" },
#endif
	{ "leave_block", run_leave_block, "a thread that left (unregistered/offline/exited) is not waited for" },
#ifdef FLAVOR_QSBR
	{ "qs_idle", run_qs_idle, "qsbr: an online reader only reports quiescent states; the first report after the grace period began must wake the sleeping updater" },
#endif
	{ "late_register", run_late_register, "a thread registers while a grace period waits for another reader, stays registered; next grace period must wait for it" },
	{ "churn", run_churn, "n readers come and go around a grace period (bp: registry growth)" },
	{ "slot_hole", run_slot_hole, "a reader exits while a later one is alive in a section; a new one registers" },
#ifdef FLAVOR_BP
	{ "slot_reuse", run_slot_reuse, "bp: sequential threads reuse the exited thread's reader slot" },
#endif
#ifndef FLAVOR_QSBR
#ifdef FLAVOR_BP
	{ "sig_fork", run_sig_fork, "bp: signal pending across fork() bracketed by the bp fork handlers, followed into child or parent" },
#endif
	{ "sig", run_sig, "signal handler with a read-side section interrupts reader / updater at every point" },
#endif
	{ NULL, NULL, NULL }
};
