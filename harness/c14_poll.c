/* C14 - grace-period polling: never early, eventually true, stays true */
#ifdef GP_WHITEBOX
#include "vflavor_spec.c"	/* white-box build: the polling state can be started from a non-initial, reachable value */
#endif
#include "vrt.h"
#define URCU_API_MAP
#if defined(FLAVOR_SPEC)
#include <urcu/urcu-spec.h>
#elif defined(FLAVOR_MEMB)
#include <urcu/urcu-memb.h>
#elif defined(FLAVOR_BP)
#include <urcu/urcu-bp.h>
#endif

const char *vrt_property_id = "C14";
#define LD(v) uatomic_load(&(v))
#define ST(v, n) uatomic_store(&(v), n)
#define MID() do { if (vrt_param("yield_in_section", 1)) vrt_yield(); } while (0)

/* notebook: per poller p (0,1,2): start call time 10+p, first-true time 14+p; reader r (0,1): section 20+2r, 21+2r;
 * reads 30.. */
#define N_START(p)	(10 + (p))
#define N_TRUE(p)	(14 + (p))
#define N_SECB(r)	(20 + 2 * (r))
#define N_SECE(r)	(21 + 2 * (r))
#define N_R(k)		(30 + (k))

static int x[3], y[3], nready;

/* param start_id: the worker has already completed that many grace periods (idle state: current = start_id, the last target
 * one behind) - lets the identifiers of a scenario straddle the wrap-around of the counter */
static void start_state(void)
{
#ifdef GP_WHITEBOX
	unsigned long s = (unsigned long)vrt_param("start_id", 0);

	poll_worker_gp_state.current_state.grace_period_id = s;
	poll_worker_gp_state.latest_target.grace_period_id = s - 1;
#endif
}
static int ready_pred(void *a) { return nready >= (int)(long)a; }

static void poller(int p)
{
	struct urcu_gp_poll_state h;
	int i;

	ST(x[p], 1);
	vrt_note_set(N_START(p), vrt_now() + 1);
	h = start_poll_synchronize_rcu();
	for (i = 0; !poll_state_synchronize_rcu(h); i++)
		vrt_yield();
	vrt_note_set(N_TRUE(p), vrt_now());
	ST(y[p], 1);
	/* once true it stays true */
	VRT_CHECK(poll_state_synchronize_rcu(h), "poller %d: handle reported true and then false", p);
	vrt_outcome((unsigned long)i);
}

static void *reader(void *a)
{
	int r = (int)(long)a, k;

	rcu_register_thread();
#ifdef FLAVOR_BP
	rcu_read_lock();
	rcu_read_unlock();
#endif
	rcu_read_lock();
	vrt_note_set(N_SECB(r), vrt_now());
	uatomic_inc(&nready);
	for (k = 0; k < 3; k++)
		vrt_note_set(N_R(r * 8 + k), (unsigned long)LD(x[k]));
	MID();
	for (k = 0; k < 3; k++)
		vrt_note_set(N_R(r * 8 + 3 + k), (unsigned long)LD(y[k]));
	vrt_note_set(N_SECE(r), vrt_now() + 1);
	rcu_read_unlock();
	rcu_unregister_thread();
	return NULL;
}

static void check(const char *what, int npollers, int nreaders)
{
	int p, r;

	for (p = 0; p < npollers; p++)
		for (r = 0; r < nreaders; r++) {
			unsigned long sb = vrt_note_get(N_SECB(r)), se = vrt_note_get(N_SECE(r));

			VRT_CHECK(!(vrt_note_get(N_R(r * 8 + p)) == 0 && vrt_note_get(N_R(r * 8 + 3 + p)) == 1),
				  "%s: reader %d saw the store made after poller %d's handle reported completion but not the "
				  "store made before start_poll", what, r, p);
			if (se && vrt_note_get(N_TRUE(p)))
				VRT_CHECK(!(sb < vrt_note_get(N_START(p)) && vrt_note_get(N_TRUE(p)) < se),
					  "%s: poller %d: poll returned true at %lu while reader %d's section [%lu,%lu), in progress "
					  "at start_poll (%lu), had not ended", what, p, vrt_note_get(N_TRUE(p)), r, sb, se,
					  vrt_note_get(N_START(p)));
			vrt_outcome(vrt_note_get(N_R(r * 8 + p)) * 2 + vrt_note_get(N_R(r * 8 + 3 + p)));
		}
}

static void run_one(void)
{
	pthread_t r;

	start_state();
	rcu_register_thread();
	pthread_create(&r, NULL, reader, (void *)0L);
	vrt_await(ready_pred, (void *)1L);
	poller(0);
	pthread_join(r, NULL);
	check("one", 1, 1);
	rcu_unregister_thread();
}

static void *poller_thread(void *a)
{
	rcu_register_thread();
	poller((int)(long)a);
	rcu_unregister_thread();
	return NULL;
}

/* two pollers taking handles at arbitrary points of each other's grace period, one reader */
static void run_two(void)
{
	pthread_t r, p;

	start_state();
	rcu_register_thread();
	pthread_create(&r, NULL, reader, (void *)0L);
	vrt_await(ready_pred, (void *)1L);
	pthread_create(&p, NULL, poller_thread, (void *)1L);
	poller(0);
	pthread_join(p, NULL);
	pthread_join(r, NULL);
	check("two", 2, 1);
	rcu_unregister_thread();
}

/* a second handle taken after the first completed, with a second reader that started in between */
static void run_late(void)
{
	pthread_t r0, r1;

	start_state();
	rcu_register_thread();
	pthread_create(&r0, NULL, reader, (void *)0L);
	vrt_await(ready_pred, (void *)1L);
	poller(0);
	pthread_create(&r1, NULL, reader, (void *)1L);
	vrt_await(ready_pred, (void *)2L);
	poller(1);
	pthread_join(r0, NULL);
	pthread_join(r1, NULL);
	check("late", 2, 2);
	rcu_unregister_thread();
}

/* second handle taken while the first one's grace period is in flight, second reader started after the first handle */
static void run_inflight(void)
{
	pthread_t r0, r1;
	struct urcu_gp_poll_state h0, h1;
	struct call_rcu_data *crdp = NULL;
	int i;

	start_state();
	rcu_register_thread();
	if (vrt_param("helper", 0)) {	/* the polling worker callback is queued on a per-thread helper ... */
		crdp = create_call_rcu_data(0, -1);
		set_thread_call_rcu_data(crdp);
	}
	pthread_create(&r0, NULL, reader, (void *)0L);
	vrt_await(ready_pred, (void *)1L);
	ST(x[0], 1);
	vrt_note_set(N_START(0), vrt_now() + 1);
	h0 = start_poll_synchronize_rcu();
	pthread_create(&r1, NULL, reader, (void *)1L);
	vrt_await(ready_pred, (void *)2L);
	ST(x[1], 1);
	vrt_note_set(N_START(1), vrt_now() + 1);
	h1 = start_poll_synchronize_rcu();
	if (crdp) {			/* ... which is destroyed while the handles are pending: its callbacks are handed over */
		set_thread_call_rcu_data(NULL);
		call_rcu_data_free(crdp);
	}
	for (i = 0; !poll_state_synchronize_rcu(h1); i++) {
		if (!vrt_note_get(N_TRUE(0)) && poll_state_synchronize_rcu(h0)) {
			vrt_note_set(N_TRUE(0), vrt_now());
			ST(y[0], 1);
		}
		vrt_yield();
	}
	vrt_note_set(N_TRUE(1), vrt_now());
	ST(y[1], 1);
	VRT_CHECK(poll_state_synchronize_rcu(h0), "inflight: later handle complete but earlier handle not");
	if (!vrt_note_get(N_TRUE(0))) {
		vrt_note_set(N_TRUE(0), vrt_now());
		ST(y[0], 1);
	}
	pthread_join(r0, NULL);
	pthread_join(r1, NULL);
	check("inflight", 2, 2);
	rcu_unregister_thread();
}

/* three handles taken while one worker grace period is in flight (held by reader 0); reader 1 starts after the first
 * handle, so it pre-exists handles 1 and 2 but not handle 0 */
static void run_three(void)
{
	pthread_t r0, r1;
	struct urcu_gp_poll_state h[3];
	int i, p, done[3] = { 0, 0, 0 }, ndone = 0;

	start_state();
	rcu_register_thread();
	pthread_create(&r0, NULL, reader, (void *)0L);
	vrt_await(ready_pred, (void *)1L);
	ST(x[0], 1);
	vrt_note_set(N_START(0), vrt_now() + 1);
	h[0] = start_poll_synchronize_rcu();
	pthread_create(&r1, NULL, reader, (void *)1L);
	vrt_await(ready_pred, (void *)2L);
	for (p = 1; p < 3; p++) {
		ST(x[p], 1);
		vrt_note_set(N_START(p), vrt_now() + 1);
		h[p] = start_poll_synchronize_rcu();
	}
	for (i = 0; ndone < 3; i++) {
		for (p = 0; p < 3; p++)
			if (!done[p] && poll_state_synchronize_rcu(h[p])) {
				done[p] = 1;
				ndone++;
				vrt_note_set(N_TRUE(p), vrt_now());
				ST(y[p], 1);
			}
		if (ndone < 3)
			vrt_yield();	/* a handle that never completes ends as a livelock verdict */
	}
	for (p = 0; p < 3; p++)
		VRT_CHECK(poll_state_synchronize_rcu(h[p]), "three: handle %d reported true and then false", p);
	pthread_join(r0, NULL);
	pthread_join(r1, NULL);
	check("three", 3, 2);
	rcu_unregister_thread();
}

struct vrt_scenario vrt_scenarios[] = {
	{ "one", run_one, "one handle || reader" },
	{ "two", run_two, "two pollers || reader" },
	{ "late", run_late, "second handle after the first completed, reader in between" },
	{ "inflight", run_inflight, "second handle while the first grace period is in flight" },
	{ "three", run_three, "three handles overlapping one in-flight grace period, second reader in between" },
	{ NULL, NULL, NULL }
};
