/* C11 - cds_wfs, cds_lfs and legacy cds_lfs_rcu are linearizable LIFO stacks */
#include "vrt.h"
#include <urcu/wfstack.h>
#include <urcu/lfstack.h>
#define CDS_LFS_RCU_DEPRECATED
#include <urcu/rculfstack.h>

const char *vrt_property_id = "C11";

enum { OP_PUSH = 1, OP_POP, OP_POPALL, OP_EMPTY };
#define WB (-1L)

/* kind: 0 wfs, 1 lfs, 2 lfs_rcu.  sync: 0 library mutex API, 1 single consumer (__ API, only one
 * thread pops), 2 RCU: poppers inside (specification) read-side sections, reuse after a grace period */
static int kind, sync_mode;

struct item {
	struct cds_wfs_node w;
	struct cds_lfs_node l;
	struct cds_lfs_node_rcu r;
	int id;
};
static struct item items[8];
static struct cds_wfs_stack ws;
static struct cds_lfs_stack ls;
static struct cds_lfs_stack_rcu rs;

static void s_init(void)
{
	int i;

	kind = (int)vrt_param("kind", 0);
	sync_mode = (int)vrt_param("sync", 0);
	for (i = 0; i < 8; i++) {
		items[i].id = i;
		cds_wfs_node_init(&items[i].w);
		cds_lfs_node_init(&items[i].l);
		cds_lfs_node_init_rcu(&items[i].r);
	}
	cds_wfs_init(&ws);
	cds_lfs_init(&ls);
	cds_lfs_init_rcu(&rs);
}

static void rd_lock(void) { if (sync_mode == 2) vrt_spec_read_lock(); }
static void rd_unlock(void) { if (sync_mode == 2) vrt_spec_read_unlock(); }

static void do_push(int id)
{
	int h = vrt_h_call(OP_PUSH, id, 0);
	long r;

	switch (kind) {
	case 0: r = cds_wfs_push(&ws, &items[id].w); break;
	case 1: r = cds_lfs_push(&ls, &items[id].l); break;
	default: r = cds_lfs_push_rcu(&rs, &items[id].r); break;
	}
	/* x86-TSO: a wfs push ends with a plain store of node->next which may still be buffered when the call
	 * returns; for the WOULDBLOCK rule the push lasts until its stores are globally visible */
	cmm_smp_mb();
	vrt_h_ret(h, r);
}

static long do_pop(void)
{
	int h, state = 0;
	long id = 0, st = -1;

	rd_lock();
	h = vrt_h_call(OP_POP, 0, 0);
	if (kind == 0) {
		struct cds_wfs_node *n;
		int api2 = (int)vrt_param("api2", 0), with_state = 1;

		/* api2: the same operations through the other exported entry points (1: variants without state, 2: the caller takes
		 * the library's pop mutex itself with cds_wfs_pop_lock / unlock around the __ variant) */
		if (sync_mode == 0 && api2 == 2) {
			cds_wfs_pop_lock(&ws);
			n = __cds_wfs_pop_with_state_blocking(&ws, &state);
			cds_wfs_pop_unlock(&ws);
		} else if (sync_mode == 0 && api2 == 1) {
			n = cds_wfs_pop_blocking(&ws);
			with_state = 0;
		} else if (sync_mode == 0)
			n = cds_wfs_pop_with_state_blocking(&ws, &state);
		else if (vrt_param("nonblocking", 0))
			n = api2 ? (with_state = 0, __cds_wfs_pop_nonblocking(&ws)) : __cds_wfs_pop_with_state_nonblocking(&ws, &state);
		else
			n = api2 ? (with_state = 0, __cds_wfs_pop_blocking(&ws)) : __cds_wfs_pop_with_state_blocking(&ws, &state);
		VRT_CHECK(n != CDS_WFS_WOULDBLOCK || (sync_mode != 0 && vrt_param("nonblocking", 0)),
			  "a blocking pop returned CDS_WFS_WOULDBLOCK");
		if (n == CDS_WFS_WOULDBLOCK)
			id = WB;
		else if (n) {
			id = caa_container_of(n, struct item, w)->id;
			if (with_state)
				st = !!(state & CDS_WFS_STATE_LAST);
		}
	} else if (kind == 1) {
		struct cds_lfs_node *n;

		if (sync_mode == 0 && vrt_param("api2", 0) == 2) {
			cds_lfs_pop_lock(&ls);
			n = __cds_lfs_pop(&ls);
			cds_lfs_pop_unlock(&ls);
		} else if (sync_mode == 0)
			n = cds_lfs_pop_blocking(&ls);
		else
			n = __cds_lfs_pop(&ls);
		if (n)
			id = caa_container_of(n, struct item, l)->id;
	} else {
		struct cds_lfs_node_rcu *n = cds_lfs_pop_rcu(&rs);

		if (n)
			id = caa_container_of(n, struct item, r)->id;
	}
	vrt_h_ret2(h, id, st);
	rd_unlock();
	return id;
}

static long do_pop_all(void)
{
	int h = vrt_h_call(OP_POPALL, 0, 0), cnt = 0;
	long enc = 0;

	if (kind == 0) {
		struct cds_wfs_head *hd;
		struct cds_wfs_node *n;

		if (sync_mode == 0 && vrt_param("api2", 0) == 2) {
			cds_wfs_pop_lock(&ws);
			hd = __cds_wfs_pop_all(&ws);
			cds_wfs_pop_unlock(&ws);
		} else
			hd = sync_mode == 0 ? cds_wfs_pop_all_blocking(&ws) : __cds_wfs_pop_all(&ws);
		if (vrt_param("nb_iter", 0)) {
			/* the non-blocking iterator: WOULDBLOCK (a push of a node below is still in flight) means "try again", never "end" */
			for (n = cds_wfs_first(hd); n != NULL; ) {
				struct cds_wfs_node *nx;

				enc = enc * 8 + caa_container_of(n, struct item, w)->id;
				if (++cnt > 6)
					vrt_fail("pop_all list does not terminate");
				while ((nx = cds_wfs_next_nonblocking(n)) == CDS_WFS_WOULDBLOCK)
					vrt_yield();
				n = nx;
			}
		} else
		cds_wfs_for_each_blocking(hd, n) {
			enc = enc * 8 + caa_container_of(n, struct item, w)->id;
			if (++cnt > 6)
				vrt_fail("pop_all list does not terminate");
		}
	} else if (kind == 1) {
		struct cds_lfs_head *hd;
		struct cds_lfs_node *n;

		if (sync_mode == 0 && vrt_param("api2", 0) == 2) {
			cds_lfs_pop_lock(&ls);
			hd = __cds_lfs_pop_all(&ls);
			cds_lfs_pop_unlock(&ls);
		} else
			hd = sync_mode == 0 ? cds_lfs_pop_all_blocking(&ls) : __cds_lfs_pop_all(&ls);
		cds_lfs_for_each(hd, n) {
			enc = enc * 8 + caa_container_of(n, struct item, l)->id;
			if (++cnt > 6)
				vrt_fail("pop_all list does not terminate");
		}
	} else {
		vrt_h_ret(h, 0);
		return 0;
	}
	vrt_h_ret(h, enc);
	return enc;
}

static void do_empty(void)
{
	int h;
	bool r;

	if (kind == 2)
		return;
	h = vrt_h_call(OP_EMPTY, 0, 0);
	r = kind == 0 ? cds_wfs_empty(&ws) : cds_lfs_empty(&ls);
	vrt_h_ret(h, r);
}

/* ---- LIFO specification ------------------------------------------------------------------------ */
struct sspec { int n; int e[8]; };
static void spec_init(void *st) { memset(st, 0, sizeof(struct sspec)); }

static int spec_apply(void *st, const struct vrt_hop *o)
{
	struct sspec *s = st;
	long enc = 0;
	int i;

	switch (o->op) {
	case OP_PUSH:
		if (o->ret != (s->n > 0))
			return 0;
		s->e[s->n++] = (int)o->a0;
		return 1;
	case OP_POP:
		if (o->ret == WB)
			return 1;
		if (s->n == 0)
			return o->ret == 0;
		if (o->ret != s->e[s->n - 1])
			return 0;
		s->n--;
		if (o->ret2 >= 0 && o->ret2 != (s->n == 0))
			return 0;
		return 1;
	case OP_POPALL:
		for (i = s->n - 1; i >= 0; i--)
			enc = enc * 8 + s->e[i];
		if (enc != o->ret)
			return 0;
		s->n = 0;
		return 1;
	case OP_EMPTY:
		return o->ret == (s->n == 0);
	}
	return 0;
}
static const struct vrt_lin_spec sspec = { sizeof(struct sspec), spec_init, spec_apply };

static void final_checks(const char *what, int pushed)
{
	int i, j, n = vrt_h_count(), out = 0;
	int seen[8] = { 0 };

	vrt_lin_assert(&sspec, what);
	for (i = 0; i < n; i++) {
		struct vrt_hop *o = vrt_h_get(i);

		if (o->op == OP_POP && o->ret > 0) {
			seen[o->ret]++;
			out++;
		}
		if (o->op == OP_POPALL) {
			long e = o->ret;

			while (e) {
				seen[e % 8]++;
				out++;
				e /= 8;
			}
		}
		if (o->op == OP_POP && o->ret == WB) {
			int overl = 0;

			for (j = 0; j < n; j++) {
				struct vrt_hop *e = vrt_h_get(j);

				if (e->op == OP_PUSH && e->tid != o->tid && e->call < o->rett && o->call < e->rett)
					overl = 1;
			}
			VRT_CHECK(overl, "%s: WOULDBLOCK although no push was in progress", what);
		}
	}
	if (pushed >= 0)
		VRT_CHECK(out == pushed, "%s: %d nodes pushed but %d came out after quiescence", what, pushed, out);
	(void)seen;
}

/* ---- scenarios -------------------------------------------------------------------------------------- */
static void *t_push12(void *a) { (void)a; do_push(1); do_push(2); return NULL; }
static void *t_push3(void *a) { (void)a; do_push(3); return NULL; }
static void *t_pop2(void *a) { (void)a; do_pop(); do_pop(); return NULL; }
static void *t_popall(void *a) { (void)a; do_pop_all(); return NULL; }

static void drain(void)
{
	int i;

	for (i = 0; i < 6; i++)
		if (do_pop() == 0)
			break;
}

/* two pushers || main pops */
static void run_pp(void)
{
	pthread_t a, b;

	s_init();
	pthread_create(&a, NULL, t_push12, NULL);
	pthread_create(&b, NULL, t_push3, NULL);
	do_pop();
	do_pop();
	pthread_join(a, NULL);
	pthread_join(b, NULL);
	drain();
	final_checks("pp", 3);
}

/* pre-filled stack, one pusher || two poppers (not for single-consumer mode) */
static void run_pop2(void)
{
	pthread_t a, b;

	s_init();
	do_push(4);
	pthread_create(&a, NULL, t_push12, NULL);
	pthread_create(&b, NULL, t_pop2, NULL);
	do_pop();
	do_empty();
	pthread_join(a, NULL);
	pthread_join(b, NULL);
	drain();
	final_checks("pop2", 3);
}

/* pusher || pop_all || pop */
static void run_popall(void)
{
	pthread_t a, b;

	s_init();
	do_push(4);
	pthread_create(&a, NULL, t_push12, NULL);
	if (sync_mode != 1)
		pthread_create(&b, NULL, t_popall, NULL);
	do_pop();
	do_pop_all();
	pthread_join(a, NULL);
	if (sync_mode != 1)
		pthread_join(b, NULL);
	do_pop_all();
	do_empty();
	final_checks("popall", 3);
}

/* last element: push racing with pop of the only node, LAST state and empty() */
static void run_last(void)
{
	pthread_t a;

	s_init();
	do_push(4);
	pthread_create(&a, NULL, t_push3, NULL);
	do_pop();
	do_empty();
	do_pop();
	pthread_join(a, NULL);
	drain();
	do_empty();
	final_checks("last", 2);
}

/* ABA: a popped node is pushed back after a grace period while another popper may still hold
 * the old head (RCU scheme only).  param no_gp=1 skips the grace period (harness self-test: the
 * corruption must then be found). */
static void *t_recycle(void *a)
{
	long x;

	(void)a;
	x = do_pop();
	do_pop();
	if (x > 0) {
		if (!vrt_param("no_gp", 0))
			vrt_spec_synchronize();
		if (kind == 0)
			cds_wfs_node_init(&items[x].w);	/* wfstack: the node may be modified once the grace period has passed */
		do_push((int)x);
	}
	return NULL;
}

static void *t_pop1(void *a) { (void)a; do_pop(); return NULL; }

static void run_aba(void)
{
	pthread_t a, b;

	s_init();
	do_push(2);
	do_push(1);
	pthread_create(&a, NULL, t_pop1, NULL);
	pthread_create(&b, NULL, t_recycle, NULL);
	pthread_join(a, NULL);
	pthread_join(b, NULL);
	drain();
	final_checks("aba", -1);
}

/* mutex scheme: pop_all followed by an immediate re-push of the node that was on top, racing with a pop
 * (the pop/pop_all mutual exclusion is what makes immediate reuse legal: no ABA) */
static void run_repush(void)
{
	pthread_t a;
	long enc, top;
	int pushes = 2;

	s_init();
	do_push(2);
	do_push(1);
	pthread_create(&a, NULL, t_pop1, NULL);
	enc = do_pop_all();
	for (top = enc; top >= 8; top /= 8)
		;
	if (top > 0) {
		cds_wfs_node_init(&items[top].w);
		cds_lfs_node_init(&items[top].l);
		do_push((int)top);	/* reuse right away */
		pushes++;
	}
	pthread_join(a, NULL);
	drain();
	final_checks("repush", pushes);
}

struct vrt_scenario vrt_scenarios[] = {
	{ "pp", run_pp, "2 pushers || popper" },
	{ "pop2", run_pop2, "pusher || 2 poppers (sync 0 or 2)" },
	{ "popall", run_popall, "pusher || pop_all || pop" },
	{ "last", run_last, "push racing with pop of the last node" },
	{ "aba", run_aba, "node recycled after a grace period (sync 2)" },
	{ "repush", run_repush, "pop_all + immediate re-push of the top node || pop (mutex scheme, sync 0)" },
	{ NULL, NULL, NULL }
};
