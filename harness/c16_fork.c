/* C16 - fork() bracketed by the documented handlers leaves parent and child fully functional.
 * vrt's fork() continues the exploration in ONE of the two processes (param fork_follow: 0 = the child,
 * in which every other thread has vanished where it was and the mutexes they held stay held; 1 = the
 * parent).  Because the two processes share nothing after the fork, "both are fine for every post-fork
 * schedule" factorises into the two variants; the pre-fork prefix is explored in both. */
#ifdef GP_WHITEBOX
#include "urcu-bp.c"
#endif
#include "vrt.h"
#ifndef URCU_API_MAP
#define URCU_API_MAP
#endif
#if defined(FLAVOR_MEMB)
#include <urcu/urcu-memb.h>
#elif defined(FLAVOR_MB)
#include <urcu/urcu-mb.h>
#elif defined(FLAVOR_QSBR)
#include <urcu/urcu-qsbr.h>
#elif defined(FLAVOR_BP)
#include <urcu/urcu-bp.h>
#endif
#include <urcu/rculfhash.h>
#ifdef TWO_FLAVORS
/* a second flavor (bp) linked into the same process next to the build's own flavor (memb); used through its prefixed API */
extern const struct rcu_flavor_struct urcu_bp_flavor;
void urcu_bp_read_lock(void);
void urcu_bp_read_unlock(void);
void urcu_bp_synchronize_rcu(void);
void urcu_bp_before_fork(void);
void urcu_bp_after_fork_parent(void);
void urcu_bp_after_fork_child(void);
void urcu_bp_call_rcu_before_fork(void);
void urcu_bp_call_rcu_after_fork_parent(void);
void urcu_bp_call_rcu_after_fork_child(void);
#endif

const char *vrt_property_id = "C16";

#ifdef FLAVOR_QSBR
#define RD_LOCK()	do { } while (0)
#define RD_UNLOCK()	rcu_quiescent_state()
#define BLOCKING(stmt)	do { rcu_thread_offline(); stmt; rcu_thread_online(); } while (0)
#else
#define RD_LOCK()	rcu_read_lock()
#define RD_UNLOCK()	rcu_read_unlock()
#define BLOCKING(stmt)	do { stmt; } while (0)
#endif
#define LD(v) uatomic_load(&(v))
#define ST(v, n) uatomic_store(&(v), n)

#define N_CNT(i)	(10 + (i))	/* invocations of callback i in the process we follow */
#define N_GO		30
#define N_INSEC		31		/* bp readers currently inside a section */
#define N_REGTID(t)	(300 + (t))

struct cbrec { struct rcu_head head; int id; };
static struct cbrec cbs[8];
static int x;

static void cb(struct rcu_head *h)
{
	struct cbrec *c = caa_container_of(h, struct cbrec, head);

	VRT_CHECK(c >= &cbs[0] && c < &cbs[8] && c == &cbs[c->id], "callback invoked with a foreign rcu_head");
	vrt_note_inc(N_CNT(c->id));
}

static void do_call_rcu(int id)
{
	cbs[id].id = id;
	call_rcu(&cbs[id].head, cb);
}

static int go_pred(void *a) { (void)a; return (int)vrt_note_get(N_GO); }
static int insec_pred(void *a) { return (int)vrt_note_get(N_INSEC) >= (int)(long)a; }

#ifdef FLAVOR_BP
/* bp only: other threads may be registered and even inside read-side sections at fork time */
static void *bp_reader(void *a)
{
	int hold = (int)(long)a;

	rcu_read_lock();
	vrt_note_set(N_REGTID(vrt_tid()), (unsigned long)pthread_self());
	vrt_note_inc(N_INSEC);
	(void)LD(x);
	if (hold == 1)
		vrt_await(go_pred, NULL);	/* inside the section across the fork (parent side only resumes) */
	else if (hold == 2) {
		vrt_yield();			/* inside the section for a while, leaves it on its own (a concurrent grace period waits) */
		vrt_yield();
	}
	rcu_read_unlock();
	if (hold != 1)
		vrt_await(go_pred, NULL);	/* registered, outside any section */
	vrt_note_set(N_REGTID(vrt_tid()), 0);
	return NULL;
}

/* bp: another thread may be running a grace period when the fork handlers are called */
static void *bp_updater(void *a)
{
	(void)a;
	ST(x, 2);
	synchronize_rcu();
	vrt_note_set(33, 1);
	return NULL;
}

static void check_registry_only_me(const char *what)
{
#ifdef GP_WHITEBOX
	struct cds_list_head *pos;
	int n = 0;

	vrt_quiet_begin();
	for (pos = registry.next; pos != &registry; pos = pos->next) {
		struct urcu_bp_reader *r = cds_list_entry(pos, struct urcu_bp_reader, node);

		VRT_CHECK(++n <= 16, "%s: the reader registry does not terminate", what);
		VRT_CHECK(pthread_equal(r->tid, pthread_self()), "%s: the child's registry still holds a thread that does not exist in the child", what);
	}
	VRT_CHECK(n == 1, "%s: the child's registry holds %d readers, expected exactly the forking thread", what, n);
	vrt_quiet_end();
#else
	(void)what;
#endif
}
#endif

/* everything a process is promised to be able to do after the fork */
static void use_everything(const char *who, int ncb_before, int lfht)
{
	int i;

	RD_LOCK();
	(void)LD(x);
	RD_UNLOCK();
	ST(x, 1);
	synchronize_rcu();
	do_call_rcu(ncb_before);
	BLOCKING(rcu_barrier());
	for (i = 0; i <= ncb_before; i++)
		VRT_CHECK(vrt_note_get(N_CNT(i)) == 1, "%s: callback %d (%s the fork) ran %lu times in this process", who, i,
			  i < ncb_before ? "queued before" : "queued after", vrt_note_get(N_CNT(i)));
	vrt_sample("%s after fork: %d callbacks queued before the fork and 1 after each ran once; synchronize_rcu, rcu_barrier returned", who, ncb_before);
	if (lfht) {
		struct cds_lfht *ht = cds_lfht_new_flavor(1, 1, 8, lfht == 2 ? CDS_LFHT_AUTO_RESIZE : 0, &rcu_flavor, NULL);
		struct cds_lfht_node *nodes = calloc(6, sizeof(*nodes));
		struct cds_lfht_iter it;
		int n = 0;

		VRT_CHECK(ht != NULL, "%s: cds_lfht_new failed", who);
		for (i = 0; i < 5; i++) {
			cds_lfht_node_init(&nodes[i]);
			RD_LOCK();
			cds_lfht_add(ht, (unsigned long)i, &nodes[i]);
			RD_UNLOCK();
		}
		BLOCKING(cds_lfht_resize(ht, 4));
		RD_LOCK();
		for (cds_lfht_first(ht, &it); cds_lfht_iter_get_node(&it); cds_lfht_next(ht, &it))
			n++;
		VRT_CHECK(n == 5, "%s: hash table holds %d of 5 nodes", who, n);
		for (i = 0; i < 5; i++)
			VRT_CHECK(cds_lfht_del(ht, &nodes[i]) == 0, "%s: del failed", who);
		RD_UNLOCK();
		VRT_CHECK(cds_lfht_destroy(ht, NULL) == 0, "%s: destroy of the emptied table failed", who);
	}
}

/* a table created before the fork, with its resize worker possibly busy */
static struct cds_lfht *pre_ht;
static struct cds_lfht_node pre_nodes[12];

/* the inherited AUTO_RESIZE table is emptied and destroyed: the teardown is queued to the (re-created) worker */
static void pre_ht_teardown(const char *who)
{
	int i;

	RD_LOCK();
	for (i = 0; i < 5; i++)
		VRT_CHECK(cds_lfht_del(pre_ht, &pre_nodes[i]) == 0, "%s: del from the inherited table failed", who);
	RD_UNLOCK();
	VRT_CHECK(cds_lfht_destroy(pre_ht, NULL) == 0, "%s: destroy of the emptied inherited table failed", who);
	while (!vrt_is_freed(pre_ht))
		BLOCKING(vrt_yield());
}

static void run_fork(void)
{
	int helpers = (int)vrt_param("helpers", 0), nreaders = (int)vrt_param("readers", 0), hold = (int)vrt_param("hold", 0);
	int lfht = (int)vrt_param("lfht", 0), pre_lfht = (int)vrt_param("pre_lfht", 0), ncb = (int)vrt_param("ncb", 2), i;
	struct call_rcu_data *crdp = NULL;
	pthread_t rd[3], upd;
	pid_t pid;

	rcu_register_thread();
#ifdef FLAVOR_BP
	rcu_read_lock();
	rcu_read_unlock();
	vrt_note_set(N_REGTID(0), (unsigned long)pthread_self());
	for (i = 0; i < nreaders; i++)
		pthread_create(&rd[i], NULL, bp_reader, (void *)(long)(i == 0 ? hold : 0));
	if (nreaders)
		vrt_await(insec_pred, (void *)(long)nreaders);
	if (vrt_param("updater", 0))
		pthread_create(&upd, NULL, bp_updater, NULL);
#else
	(void)nreaders; (void)hold; (void)rd; (void)upd;
#endif
	if (helpers & 1) {
		crdp = create_call_rcu_data(0, -1);
		set_thread_call_rcu_data(crdp);
	}
	if (helpers & 2)
		VRT_CHECK(create_all_cpu_call_rcu_data(0) == 0, "create_all_cpu_call_rcu_data failed");
	if (pre_lfht) {
		pre_ht = cds_lfht_new_flavor(1, 1, 8, CDS_LFHT_AUTO_RESIZE, &rcu_flavor, NULL);
		for (i = 0; i < 4; i++) {	/* the 4th insertion in one bucket queues a lazy resize */
			cds_lfht_node_init(&pre_nodes[i]);
			RD_LOCK();
			cds_lfht_add(pre_ht, (unsigned long)(2 * i + 1), &pre_nodes[i]);	/* hashes 1,3,5,7: distinct, none equal to the bucket's */
			RD_UNLOCK();
		}
	}
	for (i = 0; i < ncb; i++)
		do_call_rcu(i);
	if (vrt_param("yield_before_fork", 0))
		BLOCKING(vrt_yield());
	/* ---- the documented bracket ---- */
	BLOCKING(call_rcu_before_fork());
#ifdef FLAVOR_BP
	urcu_bp_before_fork();
#endif
	pid = fork();
	if (pid == 0) {
#ifdef FLAVOR_BP
		urcu_bp_after_fork_child();
		check_registry_only_me("child");
#endif
		call_rcu_after_fork_child();
		use_everything("child", ncb, lfht);
		if (pre_lfht) {
			struct cds_lfht_iter it;
			int n = 0;

			RD_LOCK();
			for (cds_lfht_first(pre_ht, &it); cds_lfht_iter_get_node(&it); cds_lfht_next(pre_ht, &it))
				n++;
			VRT_CHECK(n == 4, "child: inherited hash table shows %d of 4 nodes", n);
			cds_lfht_node_init(&pre_nodes[4]);
			cds_lfht_add(pre_ht, 9, &pre_nodes[4]);
			RD_UNLOCK();
			BLOCKING(cds_lfht_resize(pre_ht, 2));
			pre_ht_teardown("child");
		}
	} else {
#ifdef FLAVOR_BP
		urcu_bp_after_fork_parent();
#endif
		call_rcu_after_fork_parent();
		vrt_note_set(N_GO, 1);		/* readers that were inside a section across the fork may now leave it */
		use_everything("parent", ncb, lfht);
		if (pre_lfht) {
			cds_lfht_node_init(&pre_nodes[4]);
			RD_LOCK();
			cds_lfht_add(pre_ht, 9, &pre_nodes[4]);
			RD_UNLOCK();
			BLOCKING(cds_lfht_resize(pre_ht, 2));
			pre_ht_teardown("parent");
		}
#ifdef FLAVOR_BP
		for (i = 0; i < nreaders; i++)
			pthread_join(rd[i], NULL);
		if (vrt_param("updater", 0))
			pthread_join(upd, NULL);
#endif
		if (crdp) {
			set_thread_call_rcu_data(NULL);
			BLOCKING(call_rcu_data_free(crdp));
		}
		if (helpers & 2)
			BLOCKING(free_all_cpu_call_rcu_data());
		synchronize_rcu();
	}
	rcu_unregister_thread();
}

/* ---- two consecutive forks: the process that came out of the first one forks again --------------------------------------------
 * fork_follow / fork_follow2 select the side followed at each fork.  pre_lfht=1: an AUTO_RESIZE table (and with it the resize
 * worker) exists before the first fork and gets more insertions (lazy resize work for the worker) before the second one.
 * racer=1 (bp): another thread creates the process's first AUTO_RESIZE table while the forking thread is inside its first
 * bracket; that table is later emptied and destroyed (teardown runs on the worker) in the process followed after fork 2. */
static struct cds_lfht *racer_ht;

static void *racer_thread(void *a)
{
	(void)a;
	racer_ht = cds_lfht_new_flavor(1, 1, 8, CDS_LFHT_AUTO_RESIZE, &rcu_flavor, NULL);
	return NULL;
}

static pid_t bracketed_fork(void)
{
	pid_t pid;

	BLOCKING(call_rcu_before_fork());
#ifdef FLAVOR_BP
	urcu_bp_before_fork();
#endif
	pid = fork();
	if (pid == 0) {
#ifdef FLAVOR_BP
		urcu_bp_after_fork_child();
#endif
		call_rcu_after_fork_child();
	} else {
#ifdef FLAVOR_BP
		urcu_bp_after_fork_parent();
#endif
		call_rcu_after_fork_parent();
	}
	return pid;
}

static void run_fork2(void)
{
	int pre_lfht = (int)vrt_param("pre_lfht", 0), racer = (int)vrt_param("racer", 0), i, n = 0, have_racer_thread = 0;
	struct cds_lfht_iter it;
	pthread_t rt;
	pid_t p1, p2;
	const char *who;

	rcu_register_thread();
#ifdef FLAVOR_BP
	rcu_read_lock();
	rcu_read_unlock();
#else
	racer = 0;	/* no other reader thread may exist at fork time in the other flavors */
#endif
	if (pre_lfht) {
		pre_ht = cds_lfht_new_flavor(1, 1, 16, CDS_LFHT_AUTO_RESIZE, &rcu_flavor, NULL);
		for (i = 0; i < 4; i++) {
			cds_lfht_node_init(&pre_nodes[i]);
			RD_LOCK();
			cds_lfht_add(pre_ht, (unsigned long)i, &pre_nodes[i]);
			RD_UNLOCK();
		}
	}
	if (racer) {
		pthread_create(&rt, NULL, racer_thread, NULL);
		have_racer_thread = 1;
	}
	if (vrt_param("ncb", 0))
		do_call_rcu(0);		/* the default call_rcu helper exists (and has work) when the forks happen */
	p1 = bracketed_fork();
	if (p1 == 0)
		have_racer_thread = 0;		/* the child has only the forking thread */
	if (have_racer_thread)
		pthread_join(rt, NULL);
	if (pre_lfht)
		for (i = 4; i < 8; i++) {	/* more work for the (in the child: re-created) resize worker */
			cds_lfht_node_init(&pre_nodes[i]);
			RD_LOCK();
			cds_lfht_add(pre_ht, (unsigned long)i, &pre_nodes[i]);
			RD_UNLOCK();
		}
	p2 = bracketed_fork();
	who = p1 == 0 ? (p2 == 0 ? "grandchild" : "child (after forking again)") : (p2 == 0 ? "second child" : "parent (after two forks)");
	use_everything(who, (int)vrt_param("ncb", 0) ? 1 : 0, 2);
	if (pre_lfht) {
		RD_LOCK();
		for (cds_lfht_first(pre_ht, &it); cds_lfht_iter_get_node(&it); cds_lfht_next(pre_ht, &it))
			n++;
		VRT_CHECK(n == 8, "%s: inherited hash table shows %d of 8 nodes", who, n);
		for (i = 0; i < 8; i++)
			VRT_CHECK(cds_lfht_del(pre_ht, &pre_nodes[i]) == 0, "%s: del from the inherited table failed", who);
		RD_UNLOCK();
		BLOCKING(cds_lfht_resize(pre_ht, 2));
		VRT_CHECK(cds_lfht_destroy(pre_ht, NULL) == 0, "%s: destroy of the emptied inherited table failed", who);
		while (!vrt_is_freed(pre_ht))
			BLOCKING(vrt_yield());
	}
	if (racer_ht && p1 != 0) {
		VRT_CHECK(cds_lfht_destroy(racer_ht, NULL) == 0, "%s: destroy of the racer's empty table failed", who);
		while (!vrt_is_freed(racer_ht))
			BLOCKING(vrt_yield());
	}
	rcu_unregister_thread();
}

#ifdef TWO_FLAVORS
/* hash tables (and with them the shared resize worker's fork hooks) exist under TWO flavors; the application follows the documented
 * protocol for both: every flavor's call_rcu fork handlers are called around the one fork() */
static void run_fork_two_flavors(void)
{
	struct cds_lfht *t1, *t2;
	static struct cds_lfht_node n1[4], n2[4];
	pid_t pid;
	int i;
	const char *who;

	int only_second = (int)vrt_param("only_second", 0);

	rcu_register_thread();
	urcu_bp_read_lock();
	urcu_bp_read_unlock();
	if (only_second) {
		/* the first AUTO_RESIZE table of the process lived under the OTHER flavor and is gone again; from here on the application
		 * uses (and calls the fork handlers of) the build's flavor only: they must cover the shared resize worker all the same */
		t2 = cds_lfht_new_flavor(1, 1, 8, CDS_LFHT_AUTO_RESIZE, &urcu_bp_flavor, NULL);
		VRT_CHECK(t2 && cds_lfht_destroy(t2, NULL) == 0, "creating / destroying the bp table failed");
		while (!vrt_is_freed(t2))
			vrt_yield();
		t2 = NULL;
		t1 = cds_lfht_new_flavor(1, 1, 8, CDS_LFHT_AUTO_RESIZE, &urcu_memb_flavor, NULL);
		VRT_CHECK(t1 != NULL, "cds_lfht_new_flavor failed");
		urcu_memb_call_rcu_before_fork();
		urcu_bp_before_fork();
		pid = fork();
		if (pid == 0) {
			urcu_bp_after_fork_child();
			urcu_memb_call_rcu_after_fork_child();
		} else {
			urcu_bp_after_fork_parent();
			urcu_memb_call_rcu_after_fork_parent();
		}
	} else {
	t1 = cds_lfht_new_flavor(1, 1, 8, CDS_LFHT_AUTO_RESIZE, &urcu_memb_flavor, NULL);
	t2 = cds_lfht_new_flavor(1, 1, 8, CDS_LFHT_AUTO_RESIZE, &urcu_bp_flavor, NULL);
	VRT_CHECK(t1 && t2, "cds_lfht_new_flavor failed");
	urcu_memb_call_rcu_before_fork();
	urcu_bp_call_rcu_before_fork();
	urcu_bp_before_fork();
	pid = fork();
	if (pid == 0) {
		urcu_bp_after_fork_child();
		urcu_bp_call_rcu_after_fork_child();
		urcu_memb_call_rcu_after_fork_child();
	} else {
		urcu_bp_after_fork_parent();
		urcu_bp_call_rcu_after_fork_parent();
		urcu_memb_call_rcu_after_fork_parent();
	}
	}
	who = pid == 0 ? "child" : "parent";
	for (i = 0; i < 4; i++) {	/* hashes 1,3,5,7: the fourth queues a lazy grow on the shared worker */
		cds_lfht_node_init(&n1[i]);
		cds_lfht_node_init(&n2[i]);
		urcu_memb_read_lock();
		cds_lfht_add(t1, (unsigned long)(2 * i + 1), &n1[i]);
		urcu_memb_read_unlock();
		if (t2) {
			urcu_bp_read_lock();
			cds_lfht_add(t2, (unsigned long)(2 * i + 1), &n2[i]);
			urcu_bp_read_unlock();
		}
	}
	urcu_memb_synchronize_rcu();
	urcu_bp_synchronize_rcu();
	urcu_memb_read_lock();
	for (i = 0; i < 4; i++)
		VRT_CHECK(cds_lfht_del(t1, &n1[i]) == 0, "%s: del (memb table) failed", who);
	urcu_memb_read_unlock();
	if (t2) {
		urcu_bp_read_lock();
		for (i = 0; i < 4; i++)
			VRT_CHECK(cds_lfht_del(t2, &n2[i]) == 0, "%s: del (bp table) failed", who);
		urcu_bp_read_unlock();
	}
	VRT_CHECK(cds_lfht_destroy(t1, NULL) == 0 && (!t2 || cds_lfht_destroy(t2, NULL) == 0), "%s: destroy failed", who);
	while (!vrt_is_freed(t1) || (t2 && !vrt_is_freed(t2)))
		vrt_yield();
	rcu_unregister_thread();
}
#endif

struct vrt_scenario vrt_scenarios[] = {
#ifdef TWO_FLAVORS
	{ "fork_two_flavors", run_fork_two_flavors, "tables under two flavors; both flavors' call_rcu fork handlers around one fork" },
#endif
	{ "fork2", run_fork2, "two consecutive bracketed forks; params fork_follow, fork_follow2, pre_lfht, racer" },
	{ "fork", run_fork, "fork with the documented handlers; params fork_follow, helpers, readers, hold, lfht, pre_lfht, ncb" },
	{ NULL, NULL, NULL }
};
