/* C17 - progress: wait-free operations finish within a bounded number of their own steps wherever the
 * other threads are suspended; lock-free operations complete when run alone from any reachable state
 * (helping suspended operations); *_nonblocking variants never wait and answer WOULDBLOCK only while
 * another operation is really in flight.
 *
 * Method: victims run their operations; one preemption (two for two victims) suspends them at an
 * arbitrary visible step; the main thread then runs a probe operation in "solo" mode: the scheduler
 * keeps every other thread frozen, and any spin/sleep hint, mutex wait, futex wait or a step count above
 * the bound ends the execution with a progress violation.  Afterwards the victims resume and the
 * structure is checked for conservation. */
#include "vrt.h"
#define URCU_API_MAP
#include <urcu/urcu-spec.h>
#include <urcu/wfcqueue.h>
#include <urcu/wfstack.h>
#include <urcu/lfstack.h>
#include <urcu/rculfqueue.h>
#include <urcu/rculfhash.h>

const char *vrt_property_id = "C17";

#define N_INOP(t)	(100 + (t))	/* thread t is inside an operation (between call and return) */
#define N_ENQING(t)	(120 + (t))	/* ... inside an enqueue/push (the only operations that cause WOULDBLOCK) */
#define WF_BOUND	8		/* own visible steps allowed for an O(1) wait-free operation */
#define LF_BOUND	400		/* lock-free: must simply terminate; a retry loop on unchanged state never does */

static void op_begin(int enq) { vrt_note_set(N_INOP(vrt_tid()), 1); vrt_note_set(N_ENQING(vrt_tid()), (unsigned long)enq); }
static void op_end(void) { vrt_note_set(N_INOP(vrt_tid()), 0); vrt_note_set(N_ENQING(vrt_tid()), 0); }
static int others_enqueuing(void)
{
	int t, n = 0;

	for (t = 1; t < 8; t++)
		n += (int)vrt_note_get(N_ENQING(t));
	return n;
}
static int others_in_op(void)
{
	int t, n = 0;

	for (t = 1; t < 8; t++)
		n += (int)vrt_note_get(N_INOP(t));
	return n;
}

/* =================================== wfcqueue =================================================== */
struct qitem { struct cds_wfcq_node n; int id; };
static struct qitem qi[10];
static struct cds_wfcq_head qh, qh2;
static struct cds_wfcq_tail qt, qt2;
static int q_out;

static void *v_enq(void *a)
{
	int id = (int)(long)a;

	op_begin(1);
	cds_wfcq_enqueue(&qh, &qt, &qi[id].n);
	op_end();
	return NULL;
}
static void *v_enq2(void *a)
{
	int id = (int)(long)a;

	v_enq((void *)(long)id);
	v_enq((void *)(long)(id + 1));
	return NULL;
}
static void *v_deq(void *a)
{
	(void)a;
	op_begin(0);
	if (cds_wfcq_dequeue_blocking(&qh, &qt))
		vrt_note_inc(90);
	op_end();
	return NULL;
}
static void *v_splice(void *a)
{
	(void)a;
	op_begin(1);
	cds_wfcq_splice_blocking(&qh2, &qt2, &qh, &qt);
	op_end();
	return NULL;
}

static void run_wfcq(void)
{
	pthread_t v[2];
	int nv = (int)vrt_param("victims", 1), probe, i, prefill = (int)vrt_param("prefill", 1), vk = (int)vrt_param("vkind", 0);
	int inflight;

	for (i = 0; i < 10; i++) {
		cds_wfcq_node_init(&qi[i].n);
		qi[i].id = i;
	}
	cds_wfcq_init(&qh, &qt);
	cds_wfcq_init(&qh2, &qt2);
	for (i = 0; i < prefill; i++)
		cds_wfcq_enqueue(&qh, &qt, &qi[7 + i].n);
	for (i = 0; i < nv; i++)
		pthread_create(&v[i], NULL, vk == 1 && i == 0 ? v_deq : vk == 2 && i == 0 ? v_splice : v_enq2, (void *)(long)(1 + 2 * i));
	vrt_yield();	/* victims run; a preemption suspends them at any visible step and brings us here */
	probe = vrt_choose(6);
	vrt_outcome((unsigned long)probe);
	inflight = others_enqueuing();
	vrt_sample("wfcq probe %d run solo at step %lu with %d victim(s) inside an operation (%d inside an enqueue/splice)", probe, vrt_now(),
		   others_in_op(), inflight);
	switch (probe) {
	case 0:		/* enqueue: wait-free */
		vrt_solo_begin("cds_wfcq_enqueue", WF_BOUND);
		cds_wfcq_enqueue(&qh, &qt, &qi[5].n);
		vrt_solo_end();
		break;
	case 1: {	/* non-blocking dequeue (single consumer API: we are the only consumer when vkind 0) */
		struct cds_wfcq_node *n;

		if (vk)
			break;
		vrt_solo_begin("__cds_wfcq_dequeue_nonblocking", 2 * WF_BOUND);
		n = __cds_wfcq_dequeue_nonblocking(&qh, &qt);
		vrt_solo_end();
		VRT_CHECK(n != CDS_WFCQ_WOULDBLOCK || inflight, "dequeue_nonblocking answered WOULDBLOCK although no enqueue was in progress");
		if (n && n != CDS_WFCQ_WOULDBLOCK)
			q_out++;
		else if (!n)
			VRT_CHECK(prefill == 0 || vk, "dequeue_nonblocking found a non-empty queue empty");
		break;
	}
	case 2: {	/* non-blocking splice */
		enum cds_wfcq_ret r;

		if (vk)
			break;
		vrt_solo_begin("__cds_wfcq_splice_nonblocking", 3 * WF_BOUND);
		r = __cds_wfcq_splice_nonblocking(&qh2, &qt2, &qh, &qt);
		vrt_solo_end();
		VRT_CHECK(r != CDS_WFCQ_RET_WOULDBLOCK || inflight, "splice_nonblocking answered WOULDBLOCK although no enqueue was in progress");
		break;
	}
	case 3: {	/* non-blocking iteration */
		struct cds_wfcq_node *n;
		int cnt = 0;

		if (vk)
			break;
		vrt_solo_begin("__cds_wfcq_first/next_nonblocking", 6 * WF_BOUND);
		n = __cds_wfcq_first_nonblocking(&qh, &qt);
		while (n && n != CDS_WFCQ_WOULDBLOCK && cnt++ < 8)
			n = __cds_wfcq_next_nonblocking(&qh, &qt, n);
		vrt_solo_end();
		VRT_CHECK(n != CDS_WFCQ_WOULDBLOCK || inflight, "first/next_nonblocking answered WOULDBLOCK although no enqueue was in progress");
		break;
	}
	case 4:		/* empty(): wait-free */
		vrt_solo_begin("cds_wfcq_empty", WF_BOUND);
		(void)cds_wfcq_empty(&qh, &qt);
		vrt_solo_end();
		break;
	case 5:		/* two enqueues in a row */
		vrt_solo_begin("cds_wfcq_enqueue x2", 2 * WF_BOUND);
		cds_wfcq_enqueue(&qh, &qt, &qi[5].n);
		cds_wfcq_enqueue(&qh, &qt, &qi[6].n);
		vrt_solo_end();
		break;
	}
	for (i = 0; i < nv; i++)
		pthread_join(v[i], NULL);
	/* conservation: everything enqueued comes out exactly once */
	{
		struct cds_wfcq_node *n;
		int total = prefill + (probe == 0) + 2 * (probe == 5), seen = q_out + (int)vrt_note_get(90);

		for (i = 0; i < nv; i++)
			if (!((vk == 1 || vk == 2) && i == 0))
				total += 2;
		while ((n = __cds_wfcq_dequeue_blocking(&qh2, &qt2)) != NULL)
			seen++;
		while ((n = __cds_wfcq_dequeue_blocking(&qh, &qt)) != NULL)
			seen++;
		VRT_CHECK(seen == total, "wfcq: %d nodes enqueued, %d dequeued after the probe", total, seen);
	}
}

/* =================================== stacks ====================================================== */
struct sitem { struct cds_wfs_node w; struct cds_lfs_node l; int id; };
static struct sitem si[10];
static struct cds_wfs_stack ws;
static struct cds_lfs_stack ls;

static void *v_wpush(void *a) { int id = (int)(long)a; op_begin(1); cds_wfs_push(&ws, &si[id].w); op_end();
	op_begin(1); cds_wfs_push(&ws, &si[id + 1].w); op_end(); return NULL; }
static void *v_lpush(void *a) { int id = (int)(long)a; op_begin(1); cds_lfs_push(&ls, &si[id].l); op_end();
	op_begin(1); cds_lfs_push(&ls, &si[id + 1].l); op_end(); return NULL; }
static void *v_lpop(void *a) { (void)a; op_begin(0); if (__cds_lfs_pop(&ls)) vrt_note_inc(91); op_end(); return NULL; }

static void run_stack(void)
{
	pthread_t v[2];
	int nv = (int)vrt_param("victims", 1), kind = (int)vrt_param("kind", 0), prefill = (int)vrt_param("prefill", 1), i, probe;
	int total, seen = 0, inflight;

	for (i = 0; i < 10; i++) {
		cds_wfs_node_init(&si[i].w);
		cds_lfs_node_init(&si[i].l);
		si[i].id = i;
	}
	cds_wfs_init(&ws);
	cds_lfs_init(&ls);
	for (i = 0; i < prefill; i++) {
		cds_wfs_push(&ws, &si[7 + i].w);
		cds_lfs_push(&ls, &si[7 + i].l);
	}
	for (i = 0; i < nv; i++)
		pthread_create(&v[i], NULL, kind == 0 ? v_wpush : (i == 1 && vrt_param("vpop", 0)) ? v_lpop : v_lpush, (void *)(long)(1 + 2 * i));
	vrt_yield();
	probe = vrt_choose(4);
	vrt_outcome((unsigned long)probe);
	inflight = others_enqueuing();
	total = prefill + 2 * nv - (kind == 1 && nv == 2 && vrt_param("vpop", 0) ? 2 : 0);
	if (kind == 0) {
		switch (probe) {
		case 0:
			vrt_solo_begin("cds_wfs_push", WF_BOUND);
			cds_wfs_push(&ws, &si[5].w);
			vrt_solo_end();
			total++;
			break;
		case 1: {
			struct cds_wfs_head *h;
			struct cds_wfs_node *n;
			int cnt = 0;

			vrt_solo_begin("__cds_wfs_pop_all", WF_BOUND);
			h = __cds_wfs_pop_all(&ws);
			vrt_solo_end();
			/* non-blocking iteration over the popped list */
			vrt_solo_begin("cds_wfs_first/next_nonblocking", 6 * WF_BOUND);
			n = cds_wfs_first(h);
			while (n && n != CDS_WFS_WOULDBLOCK && cnt < 8) {
				cnt++;
				n = cds_wfs_next_nonblocking(n);
			}
			vrt_solo_end();
			VRT_CHECK(n != CDS_WFS_WOULDBLOCK || inflight, "wfs next_nonblocking answered WOULDBLOCK although no push was in progress");
			if (n == CDS_WFS_WOULDBLOCK) {
				/* finish the walk once the pusher has completed */
				for (i = 0; i < nv; i++)
					pthread_join(v[i], NULL);
				nv = 0;
				cnt = 0;
				cds_wfs_for_each_blocking(h, n)
					cnt++;
			}
			seen += cnt;
			break;
		}
		case 2: {
			struct cds_wfs_node *n;
			int state;

			vrt_solo_begin("__cds_wfs_pop_with_state_nonblocking", 2 * WF_BOUND);
			n = __cds_wfs_pop_with_state_nonblocking(&ws, &state);
			vrt_solo_end();
			VRT_CHECK(n != CDS_WFS_WOULDBLOCK || inflight, "wfs pop_nonblocking answered WOULDBLOCK although no push was in progress");
			VRT_CHECK(n || !prefill, "wfs pop_nonblocking found a non-empty stack empty");
			if (n && n != CDS_WFS_WOULDBLOCK)
				seen++;
			break;
		}
		case 3:
			vrt_solo_begin("cds_wfs_empty", WF_BOUND);
			(void)cds_wfs_empty(&ws);
			vrt_solo_end();
			break;
		}
	} else {
		switch (probe) {
		case 0:		/* lock-free push: completes solo */
			vrt_solo_begin("cds_lfs_push", LF_BOUND);
			cds_lfs_push(&ls, &si[5].l);
			vrt_solo_end();
			total++;
			break;
		case 1:		/* wait-free pop_all */
			{
				struct cds_lfs_head *h;
				struct cds_lfs_node *n;

				vrt_solo_begin("__cds_lfs_pop_all", WF_BOUND);
				h = __cds_lfs_pop_all(&ls);
				vrt_solo_end();
				cds_lfs_for_each(h, n)
					seen++;
			}
			break;
		case 2:		/* lock-free pop (we are the only popper unless vpop) */
			if (vrt_param("vpop", 0))
				break;
			vrt_solo_begin("__cds_lfs_pop", LF_BOUND);
			if (__cds_lfs_pop(&ls))
				seen++;
			else
				VRT_CHECK(!prefill, "lfs pop found a non-empty stack empty");
			vrt_solo_end();
			break;
		case 3:
			vrt_solo_begin("cds_lfs_empty", WF_BOUND);
			(void)cds_lfs_empty(&ls);
			vrt_solo_end();
			break;
		}
	}
	for (i = 0; i < nv; i++)
		pthread_join(v[i], NULL);
	seen += (int)vrt_note_get(91);
	if (kind == 0) {
		struct cds_wfs_head *h = __cds_wfs_pop_all(&ws);
		struct cds_wfs_node *n;

		cds_wfs_for_each_blocking(h, n)
			seen++;
	} else {
		struct cds_lfs_head *h = __cds_lfs_pop_all(&ls);
		struct cds_lfs_node *n;

		cds_lfs_for_each(h, n)
			seen++;
	}
	if (kind == 1 && nv == 2 && vrt_param("vpop", 0))
		total = prefill + 2 + (probe == 0);
	VRT_CHECK(seen == total, "stack: %d nodes pushed, %d came out after the probe", total, seen);
}

/* =================================== rculfqueue ================================================== */
struct lqitem { struct cds_lfq_node_rcu n; int id; };
static struct lqitem lq[10];
static struct cds_lfq_queue_rcu lfq;
static void lfq_call_rcu(struct rcu_head *h, void (*f)(struct rcu_head *)) { (void)h; (void)f; /* dummies leak: progress only */ }

static void *v_lfq_enq(void *a)
{
	int id = (int)(long)a;

	vrt_spec_read_lock(); op_begin(1); cds_lfq_enqueue_rcu(&lfq, &lq[id].n); op_end(); vrt_spec_read_unlock();
	vrt_spec_read_lock(); op_begin(1); cds_lfq_enqueue_rcu(&lfq, &lq[id + 1].n); op_end(); vrt_spec_read_unlock();
	return NULL;
}
static void *v_lfq_deq(void *a)
{
	int i;

	(void)a;
	for (i = 0; i < 2; i++) {
		vrt_spec_read_lock();
		op_begin(0);
		if (cds_lfq_dequeue_rcu(&lfq))
			vrt_note_inc(92);
		op_end();
		vrt_spec_read_unlock();
	}
	return NULL;
}

static void run_lfq(void)
{
	pthread_t v[2];
	int nv = (int)vrt_param("victims", 1), prefill = (int)vrt_param("prefill", 1), i, probe, total, seen = 0;

	for (i = 0; i < 10; i++) {
		cds_lfq_node_init_rcu(&lq[i].n);
		lq[i].id = i;
	}
	cds_lfq_init_rcu(&lfq, lfq_call_rcu);
	for (i = 0; i < prefill; i++) {
		vrt_spec_read_lock();
		cds_lfq_enqueue_rcu(&lfq, &lq[7 + i].n);
		vrt_spec_read_unlock();
	}
	for (i = 0; i < nv; i++)
		pthread_create(&v[i], NULL, (i == 0 && vrt_param("vdeq", 0)) ? v_lfq_deq : v_lfq_enq, (void *)(long)(1 + 2 * i));
	vrt_yield();
	probe = vrt_choose(2);
	vrt_outcome((unsigned long)probe);
	vrt_spec_read_lock();
	if (probe == 0) {
		vrt_solo_begin("cds_lfq_enqueue_rcu", LF_BOUND);
		cds_lfq_enqueue_rcu(&lfq, &lq[5].n);
		vrt_solo_end();
	} else {
		vrt_solo_begin("cds_lfq_dequeue_rcu", LF_BOUND);
		if (cds_lfq_dequeue_rcu(&lfq))
			seen++;
		vrt_solo_end();
	}
	vrt_spec_read_unlock();
	for (i = 0; i < nv; i++)
		pthread_join(v[i], NULL);
	total = prefill + (probe == 0);
	for (i = 0; i < nv; i++)
		total += (i == 0 && vrt_param("vdeq", 0)) ? 0 : 2;
	seen += (int)vrt_note_get(92);
	vrt_spec_read_lock();
	while (cds_lfq_dequeue_rcu(&lfq))
		seen++;
	vrt_spec_read_unlock();
	VRT_CHECK(seen == total, "lfq: %d nodes enqueued, %d dequeued after the probe", total, seen);
}

/* =================================== rculfhash =================================================== */
struct hnode { struct cds_lfht_node n; int key; };
static struct hnode *hn[16];
static struct cds_lfht *ht;
static int hmap;
static unsigned long hash_of(int key) { return hmap ? (unsigned long)key : 0UL; }
static int match(struct cds_lfht_node *n, const void *key) { return caa_container_of(n, struct hnode, n)->key == *(const int *)key; }
static struct hnode *mk(int i, int key)
{
	hn[i] = malloc(sizeof(struct hnode));
	cds_lfht_node_init(&hn[i]->n);
	hn[i]->key = key;
	return hn[i];
}

static void *v_ht(void *a)
{
	int which = (int)(long)a, key;
	struct cds_lfht_iter it;

	switch (which) {
	case 0:		/* add a duplicate of key 0, then delete key 1 */
		vrt_spec_read_lock(); op_begin(1); cds_lfht_add(ht, hash_of(0), &mk(8, 0)->n); op_end(); vrt_spec_read_unlock();
		key = 1;
		vrt_spec_read_lock(); op_begin(1);
		cds_lfht_lookup(ht, hash_of(1), match, &key, &it);
		if (cds_lfht_iter_get_node(&it))
			(void)cds_lfht_del(ht, cds_lfht_iter_get_node(&it));
		op_end(); vrt_spec_read_unlock();
		break;
	case 1:		/* replace key 0, add_unique key 2 */
		key = 0;
		vrt_spec_read_lock(); op_begin(1);
		cds_lfht_lookup(ht, hash_of(0), match, &key, &it);
		if (cds_lfht_iter_get_node(&it))
			(void)cds_lfht_replace(ht, &it, hash_of(0), match, &key, &mk(9, 0)->n);
		op_end(); vrt_spec_read_unlock();
		key = 2;
		vrt_spec_read_lock(); op_begin(1); (void)cds_lfht_add_unique(ht, hash_of(2), match, &key, &mk(10, 2)->n); op_end(); vrt_spec_read_unlock();
		break;
	case 2:		/* resize up then down */
		op_begin(1); cds_lfht_resize(ht, 4); op_end();
		op_begin(1); cds_lfht_resize(ht, 1); op_end();
		break;
	}
	return NULL;
}

static void run_lfht(void)
{
	pthread_t v[2];
	int nv = (int)vrt_param("victims", 1), i, probe, key, nlinked;
	struct cds_lfht_iter it;

	hmap = (int)vrt_param("hmap", 0);
	ht = cds_lfht_new_flavor((unsigned long)vrt_param("init", 1), 1, 8, 0, &urcu_spec_flavor, NULL);
	for (i = 0; i < 3; i++) {	/* keys 0, 1, 3 resident */
		int k = i == 2 ? 3 : i;

		vrt_spec_read_lock();
		cds_lfht_add(ht, hash_of(k), &mk(i, k)->n);
		vrt_spec_read_unlock();
	}
	for (i = 0; i < nv; i++)
		pthread_create(&v[i], NULL, v_ht, (void *)(long)((vrt_param("vkind", 0) + i) % 3));
	vrt_yield();
	probe = vrt_choose(7);
	vrt_outcome((unsigned long)probe);
	/* wait-free bound for read operations: 2 steps per physically linked node (user + bucket nodes, removed
	 * ones included) plus a constant; at most 3 + 3 user nodes and 8 bucket nodes here */
	nlinked = 6 + 8;
	vrt_spec_read_lock();
	switch (probe) {
	case 0:
		key = 3;
		vrt_solo_begin("cds_lfht_lookup", 2 * (unsigned long)nlinked + 4);
		cds_lfht_lookup(ht, hash_of(3), match, &key, &it);
		vrt_solo_end();
		VRT_CHECK(cds_lfht_iter_get_node(&it) == &hn[2]->n, "lookup of resident key 3 failed while other operations were suspended");
		break;
	case 1: {
		int cnt = 0, saw3 = 0;

		vrt_solo_begin("cds_lfht_first/next", 2 * (unsigned long)nlinked + 8);
		for (cds_lfht_first(ht, &it); cds_lfht_iter_get_node(&it) && cnt < 12; cds_lfht_next(ht, &it)) {
			cnt++;
			saw3 |= cds_lfht_iter_get_node(&it) == &hn[2]->n;
		}
		vrt_solo_end();
		VRT_CHECK(saw3, "traversal missed resident key 3 while other operations were suspended");
		break;
	}
	case 2:
		vrt_solo_begin("cds_lfht_add", LF_BOUND);
		cds_lfht_add(ht, hash_of(1), &mk(11, 1)->n);
		vrt_solo_end();
		break;
	case 3:
		key = 0;
		vrt_solo_begin("cds_lfht_add_unique", LF_BOUND);
		(void)cds_lfht_add_unique(ht, hash_of(0), match, &key, &mk(12, 0)->n);
		vrt_solo_end();
		break;
	case 4:
		key = 0;
		vrt_solo_begin("cds_lfht_add_replace", LF_BOUND);
		(void)cds_lfht_add_replace(ht, hash_of(0), match, &key, &mk(13, 0)->n);
		vrt_solo_end();
		break;
	case 5:
		key = 1;
		vrt_solo_begin("cds_lfht_lookup+del", LF_BOUND);
		cds_lfht_lookup(ht, hash_of(1), match, &key, &it);
		if (cds_lfht_iter_get_node(&it))
			(void)cds_lfht_del(ht, cds_lfht_iter_get_node(&it));
		vrt_solo_end();
		break;
	case 6:
		key = 0;
		vrt_solo_begin("cds_lfht_lookup+replace", LF_BOUND);
		cds_lfht_lookup(ht, hash_of(0), match, &key, &it);
		if (cds_lfht_iter_get_node(&it))
			(void)cds_lfht_replace(ht, &it, hash_of(0), match, &key, &mk(14, 0)->n);
		vrt_solo_end();
		break;
	}
	vrt_spec_read_unlock();
	for (i = 0; i < nv; i++)
		pthread_join(v[i], NULL);
	/* sanity after everybody finished: key 3 still there, traversal terminates */
	key = 3;
	vrt_spec_read_lock();
	cds_lfht_lookup(ht, hash_of(3), match, &key, &it);
	VRT_CHECK(cds_lfht_iter_get_node(&it) == &hn[2]->n, "resident key 3 lost");
	i = 0;
	for (cds_lfht_first(ht, &it); cds_lfht_iter_get_node(&it); cds_lfht_next(ht, &it))
		VRT_CHECK(++i < 16, "final traversal does not terminate");
	vrt_spec_read_unlock();
	(void)others_in_op;
}

/* lock-free del / add on a table with node accounting and automatic resizing: the split-counter commit path arbitrates the
 * lazy resize target with cmpxchg retry loops; the resize worker is just another suspended thread */
static void run_lfht_acct(void)
{
	int n = (int)vrt_param("n", 5), i, key;
	struct cds_lfht_iter it;

	hmap = (int)vrt_param("hmap", 0);
	ht = cds_lfht_new_flavor((unsigned long)vrt_param("init", 8), 1, 8, CDS_LFHT_AUTO_RESIZE | CDS_LFHT_ACCOUNTING, &urcu_spec_flavor, NULL);
	for (i = 0; i < n; i++) {
		vrt_spec_read_lock();
		cds_lfht_add(ht, hash_of(i & 3), &mk(i, i & 3)->n);
		vrt_spec_read_unlock();
	}
	/* from here on the worker (and anybody else) stays frozen: every operation must complete on its own */
	for (i = 0; i < n; i++) {
		key = i & 3;
		vrt_spec_read_lock();
		vrt_solo_begin("cds_lfht_lookup+del (accounting, lazy resize pending)", LF_BOUND);
		cds_lfht_lookup(ht, hash_of(key), match, &key, &it);
		if (cds_lfht_iter_get_node(&it))
			(void)cds_lfht_del(ht, cds_lfht_iter_get_node(&it));
		vrt_solo_end();
		vrt_spec_read_unlock();
	}
	for (i = 0; i < n + 4; i++) {
		vrt_spec_read_lock();
		vrt_solo_begin("cds_lfht_add (accounting, lazy resize pending)", LF_BOUND);
		cds_lfht_add(ht, hash_of(i & 3), &mk(8 + (i & 7), i & 3)->n);
		vrt_solo_end();
		vrt_spec_read_unlock();
		hn[8 + (i & 7)] = NULL;
	}
}

struct vrt_scenario vrt_scenarios[] = {
	{ "wfcq", run_wfcq, "wfcqueue: enqueue / nonblocking dequeue, splice, iteration / empty with suspended victims" },
	{ "stack", run_stack, "wfstack (kind 0) and lfstack (kind 1) probes with suspended victims" },
	{ "lfq", run_lfq, "rculfqueue enqueue / dequeue complete solo (helping)" },
	{ "lfht_acct", run_lfht_acct, "rculfhash with accounting + auto-resize: del/add complete solo while lazy resizes stay pending" },
	{ "lfht", run_lfht, "rculfhash lookups / traversals bounded, updates complete solo, with suspended updaters / resizer" },
	{ NULL, NULL, NULL }
};
