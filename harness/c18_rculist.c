/* C18 - RCU lists (cds_list_*_rcu, cds_hlist_*_rcu): readers concurrent with one updater always see a
 * consistent list.  The updater's operation sequence is enumerated; every interleaving (and TSO delay)
 * of its pointer stores with the readers' pointer loads is explored; removed nodes are freed one
 * (adversarially early) specification grace period after their removal. */
#include "vrt.h"
#include <urcu/rculist.h>
#include <urcu/rcuhlist.h>

const char *vrt_property_id = "C18";

enum { OP_UPD = 1, OP_WALK };
enum { U_ADD = 0, U_ADD_TAIL, U_DEL, U_REPLACE };

#define MAXID 12
struct item {
	struct cds_list_head l;
	struct cds_hlist_node h;
	long payload;
	int id;
};
static struct item *items[MAXID];
static CDS_LIST_HEAD(lhead);
static struct cds_hlist_head hhead;
static int hl;				/* 0: cds_list, 1: cds_hlist */

/* model: list states after each updater operation (ids in list order); position keys give the
 * stable relative order of all nodes that ever were in the list */
#define MAXSTATES 8
static int st_len[MAXSTATES], st_ids[MAXSTATES][MAXID], nstates;
static int upd_hidx[MAXSTATES];		/* history index of the operation leading to state i (i >= 1) */
static int poskey[MAXID], lowkey = 0, highkey = 0;
static int next_id = 1;

static struct item *mkitem(int key)
{
	struct item *it = malloc(sizeof(*it));
	int id = next_id++;

	if (id >= MAXID)
		vrt_internal("too many items");
	it->id = id;
	it->payload = 1000 + 7 * id;		/* fully initialised before publication */
	vrt_quiet_begin();
	items[id] = it;
	poskey[id] = key;
	vrt_quiet_end();
	return it;
}

static void push_state(const int *ids, int n, int hidx)
{
	vrt_quiet_begin();
	if (nstates >= MAXSTATES)
		vrt_internal("too many states");
	memcpy(st_ids[nstates], ids, sizeof(int) * (size_t)n);
	st_len[nstates] = n;
	upd_hidx[nstates] = hidx;
	nstates++;
	vrt_quiet_end();
}

static void retire(struct item *it)
{
	vrt_spec_synchronize();
	free(it);
}

/* one updater operation on the current state; returns 0 if the choice is not applicable */
static void do_update(int kind, int pos)
{
	int cur[MAXID], n, i, h;
	struct item *it, *old;

	vrt_quiet_begin();
	n = st_len[nstates - 1];
	memcpy(cur, st_ids[nstates - 1], sizeof(int) * (size_t)n);
	vrt_quiet_end();
	switch (kind) {
	case U_ADD:
		it = mkitem(--lowkey);
		h = vrt_h_call(OP_UPD, kind, it->id);
		if (hl)
			cds_hlist_add_head_rcu(&it->h, &hhead);
		else
			cds_list_add_rcu(&it->l, &lhead);
		cmm_smp_mb();	/* the operation is complete once its stores are globally visible (x86-TSO) */
		vrt_h_ret(h, 0);
		memmove(cur + 1, cur, sizeof(int) * (size_t)n);
		cur[0] = it->id;
		push_state(cur, n + 1, h);
		break;
	case U_ADD_TAIL:
		it = mkitem(++highkey);
		h = vrt_h_call(OP_UPD, kind, it->id);
		cds_list_add_tail_rcu(&it->l, &lhead);
		cmm_smp_mb();	/* the operation is complete once its stores are globally visible (x86-TSO) */
		vrt_h_ret(h, 0);
		cur[n] = it->id;
		push_state(cur, n + 1, h);
		break;
	case U_DEL:
		old = items[cur[pos]];
		h = vrt_h_call(OP_UPD, kind, old->id);
		if (hl)
			cds_hlist_del_rcu(&old->h);
		else
			cds_list_del_rcu(&old->l);
		cmm_smp_mb();	/* the operation is complete once its stores are globally visible (x86-TSO) */
		vrt_h_ret(h, 0);
		for (i = pos; i + 1 < n; i++)
			cur[i] = cur[i + 1];
		push_state(cur, n - 1, h);
		retire(old);
		break;
	case U_REPLACE:
		old = items[cur[pos]];
		it = mkitem(poskey[old->id]);
		h = vrt_h_call(OP_UPD, kind, old->id * 16 + it->id);
		cds_list_replace_rcu(&old->l, &it->l);
		cmm_smp_mb();	/* the operation is complete once its stores are globally visible (x86-TSO) */
		vrt_h_ret(h, 0);
		cur[pos] = it->id;
		push_state(cur, n, h);
		retire(old);
		break;
	}
}

static void check_item(struct item *it, int *cnt, unsigned long *enc)
{
	int id = it->id;
	int ok;

	VRT_CHECK(++*cnt <= MAXID, "traversal does not terminate (more than %d nodes visited)", MAXID);
	vrt_quiet_begin();
	ok = id > 0 && id < MAXID && items[id] == it;
	vrt_quiet_end();
	VRT_CHECK(ok, "traversal reached something that is not a list node (%p, id %d)", (void *)it, id);
	VRT_CHECK(it->payload == 1000 + 7 * id, "node %d visited with uninitialised contents (%ld)", id, it->payload);
	*enc = *enc * 16 + (unsigned long)id;
}

static void traverse(int variant)
{
	unsigned long enc = 0;
	int cnt = 0, h;
	struct item *it;

	vrt_spec_read_lock();
	h = vrt_h_call(OP_WALK, variant, 0);
	if (hl) {
		struct cds_hlist_node *pos;

		if (variant == 0) {
			cds_hlist_for_each_entry_rcu_2(it, &hhead, h)
				check_item(it, &cnt, &enc);
		} else {
			cds_hlist_for_each_entry_rcu(it, pos, &hhead, h)
				check_item(it, &cnt, &enc);
		}
	} else if (variant == 0) {
		cds_list_for_each_entry_rcu(it, &lhead, l)
			check_item(it, &cnt, &enc);
	} else {
		struct cds_list_head *pos;

		cds_list_for_each_rcu(pos, &lhead)
			check_item(cds_list_entry(pos, struct item, l), &cnt, &enc);
	}
	vrt_h_ret2(h, (long)enc, cnt);
	vrt_spec_read_unlock();
}

static void *reader(void *a)
{
	int n = (int)(long)a, i;

	for (i = 0; i < n; i++)
		traverse(i & 1);
	return NULL;
}

static int in_state(int s, int id)
{
	int i;

	for (i = 0; i < st_len[s]; i++)
		if (st_ids[s][i] == id)
			return 1;
	return 0;
}

static void walk_checks(void)
{
	int i, s, id, n = vrt_h_count();
	char buf[500];

	vrt_h_dump(buf, sizeof(buf));
	vrt_sample("op1=(kind,node) updates, op2=traversals (visited nodes as hex digits / count):%s", buf);
	for (i = 0; i < n; i++) {
		struct vrt_hop *w = vrt_h_get(i);
		int visited[MAXID], nv = 0, seen[MAXID] = { 0 }, lastkey = -1000;
		unsigned long e = (unsigned long)w->ret;
		int possible[MAXSTATES], np = 0;

		if (w->op != OP_WALK)
			continue;
		for (nv = 0; nv < (int)w->ret2; nv++)
			visited[(int)w->ret2 - 1 - nv] = (int)((e >> (4 * nv)) & 15);
		nv = (int)w->ret2;
		/* states that may have been current at some instant of [call, ret] */
		for (s = 0; s < nstates; s++) {
			int started = s == 0 || vrt_h_get(upd_hidx[s])->call < w->rett;
			int not_over = s == nstates - 1 || vrt_h_get(upd_hidx[s + 1])->rett > w->call;

			if (started && not_over)
				possible[np++] = s;
		}
		vrt_h_dump(buf, sizeof(buf));
		for (s = 0; s < nv; s++) {
			int may = 0, k;

			id = visited[s];
			VRT_CHECK(!seen[id], "traversal visited node %d twice:%s", id, buf);
			seen[id] = 1;
			for (k = 0; k < np; k++)
				may |= in_state(possible[k], id);
			VRT_CHECK(may, "traversal visited node %d which was in the list at no moment of the traversal:%s", id, buf);
			VRT_CHECK(poskey[id] > lastkey, "traversal visited node %d out of list order (or both a node and its replacement):%s",
				  id, buf);
			lastkey = poskey[id];
		}
		for (id = 1; id < next_id; id++) {
			int must = 1, k;

			for (k = 0; k < np; k++)
				must &= in_state(possible[k], id);
			VRT_CHECK(!must || seen[id], "traversal missed node %d which was in the list during the whole traversal:%s", id, buf);
		}
	}
}

static void run_list(void)
{
	int steps = (int)vrt_param("steps", 2), ninit = (int)vrt_param("ninit", 2), nreaders = (int)vrt_param("readers", 1);
	int walks = (int)vrt_param("walks", 1), i, empty[1];
	pthread_t rd[2];

	hl = (int)vrt_param("hlist", 0);
	CDS_INIT_HLIST_HEAD(&hhead);
	push_state(empty, 0, -1);
	/* initial content, built with the same primitives before any reader exists */
	for (i = 0; i < ninit; i++)
		do_update(hl ? U_ADD : U_ADD_TAIL, 0);
	/* history and model restart from here: state 0 = initial list */
	{
		int cur[MAXID], n = st_len[nstates - 1];

		memcpy(cur, st_ids[nstates - 1], sizeof(int) * (size_t)n);
		nstates = 0;
		push_state(cur, n, -1);
	}
	for (i = 0; i < nreaders; i++)
		pthread_create(&rd[i], NULL, reader, (void *)(long)walks);
	for (i = 0; i < steps; i++) {
		int n = st_len[nstates - 1], nch, c;

		/* applicable operations: add, [add_tail], del(p) for p < n, [replace(p)] */
		nch = hl ? 1 + n : 2 + 2 * n;
		c = vrt_choose(nch);
		vrt_outcome((unsigned long)c + 50);
		if (hl) {
			if (c == 0)
				do_update(U_ADD, 0);
			else
				do_update(U_DEL, c - 1);
		} else if (c == 0)
			do_update(U_ADD, 0);
		else if (c == 1)
			do_update(U_ADD_TAIL, 0);
		else if (c < 2 + n)
			do_update(U_DEL, c - 2);
		else
			do_update(U_REPLACE, c - 2 - n);
	}
	for (i = 0; i < nreaders; i++)
		pthread_join(rd[i], NULL);
	traverse(0);	/* quiescent traversal: exactly the final state */
	vrt_quiet_begin();
	walk_checks();
	vrt_quiet_end();
}

struct vrt_scenario vrt_scenarios[] = {
	{ "list", run_list, "enumerated updater sequence || reader traversals (param hlist=1 for cds_hlist)" },
	{ NULL, NULL, NULL }
};
