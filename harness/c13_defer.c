/* C13 - defer_rcu(): calls run once, in order, with exact arguments, after a grace period */
#ifdef GP_WHITEBOX
#include "vflavor_spec.c"	/* white-box build: the per-thread queue indices can be started from a non-initial, reachable value */
#endif
#include "vrt.h"
#define URCU_API_MAP
#if defined(FLAVOR_SPEC)
#include <urcu/urcu-spec.h>
#elif defined(FLAVOR_MEMB)
#include <urcu/urcu-memb.h>
#elif defined(FLAVOR_QSBR)
#include <urcu/urcu-qsbr.h>
#endif

const char *vrt_property_id = "C13";

#ifdef FLAVOR_QSBR
#define RD_LOCK()	do { } while (0)
#define RD_UNLOCK()	rcu_quiescent_state()
#define BLOCKING(stmt)	do { rcu_thread_offline(); stmt; rcu_thread_online(); } while (0)
#else
#define RD_LOCK()	rcu_read_lock()
#define RD_UNLOCK()	rcu_read_unlock()
#define BLOCKING(stmt)	do { stmt; } while (0)
#endif
#define LD(v) uatomic_load(&(v))
#define ST(v, n) uatomic_store(&(v), n)

/* ---- logs (in vrt's notebook, invisible to the memory model) -------------------------------------
 * owner o (0 or 1): queued log at 100+o*40 .. , invoked log at 180+o*30 ...; counts at 20+o, 24+o */
#define QN(o)		(20 + (o))
#define RN(o)		(24 + (o))
#define QLOG(o, i)	(100 + (o) * 40 + (i))
#define RLOG(o, i)	(180 + (o) * 36 + (i))
#define RTIME(o, i)	(28 + (o) * 16 + (i))		/* time of invocation i (first 16) */
#define N_SECB		60
#define N_SECE		61
#define N_R(k)		(62 + (k))

static unsigned long enc(int f, void *p, int owner) { return ((unsigned long)p << 4) | (unsigned long)(f << 1) | (unsigned long)owner; }

static void ran(int f, void *p)
{
	/* the owner is encoded in bit 3 of the argument for the concurrent scenarios; sequential
	 * scenarios have a single owner 0 */
	int o = (int)vrt_param("two_owners", 0) ? (int)(((unsigned long)p >> 3) & 1) : 0;
	int i = (int)vrt_note_inc(RN(o));

	if (i < 36)
		vrt_note_set(RLOG(o, i), enc(f, p, 0));
	if (i < 16)
		vrt_note_set(RTIME(o, i), vrt_now());
}

static int yv[4];
static void fa(void *p) { ran(1, p); ST(yv[0], 1); }
static void fb(void *p) { ran(2, p); ST(yv[1], 1); }
void odd_fct_impl(void *p);
void odd_fct_impl(void *p) { ran(3, p); }
/* a function whose address has the low bit set (legal on x86): exercises the marker encoding */
__asm__(".text\n\t.balign 16\n\tint3\n\t.globl odd_fct\n\t.type odd_fct,@function\nodd_fct:\n\tjmp odd_fct_impl\n\t.size odd_fct, .-odd_fct\n");
void odd_fct(void *p);

static void (*const fcts[3])(void *) = { fa, fb, odd_fct };
static void *const args_seq[4] = { (void *)0x1000, (void *)0x1001, (void *)-2L, (void *)0 };

static void do_defer(int o, int f, void *p)
{
	int i = (int)vrt_note_inc(QN(o));

	if (i < 40)
		vrt_note_set(QLOG(o, i), enc(f + 1, p, 0));
	defer_rcu(fcts[f], p);
}

/* everything queued by owner o so far must have run, in order, exactly once */
static void check_log(const char *what, int o, int must_be_complete)
{
	int qn = (int)vrt_note_get(QN(o)), rn = (int)vrt_note_get(RN(o)), i;

	VRT_CHECK(rn <= qn, "%s: owner %d: %d calls queued but %d invocations", what, o, qn, rn);
	if (must_be_complete)
		VRT_CHECK(rn == qn, "%s: owner %d: %d calls queued, only %d invoked after the barrier", what, o, qn, rn);
	for (i = 0; i < rn && i < 36; i++)
		VRT_CHECK(vrt_note_get(QLOG(o, i)) == vrt_note_get(RLOG(o, i)),
			  "%s: owner %d: invocation %d was (fct %lu, arg %#lx), queued (fct %lu, arg %#lx)", what, o, i,
			  (vrt_note_get(RLOG(o, i)) >> 1) & 7, vrt_note_get(RLOG(o, i)) >> 4,
			  (vrt_note_get(QLOG(o, i)) >> 1) & 7, vrt_note_get(QLOG(o, i)) >> 4);
	vrt_outcome((unsigned long)qn * 64 + (unsigned long)rn);
}

/* ---- sequential enumeration (E2): every operation sequence of length param len ---------------------- */
static void run_seq(void)
{
	int len = (int)vrt_param("len", 4), i, registered = 1;

	rcu_register_thread();
	VRT_CHECK(rcu_defer_register_thread() == 0, "rcu_defer_register_thread failed");
#ifdef GP_WHITEBOX
	/* param start_idx: the thread has already queued (and run) that many slots: head == tail == start_idx, so that the indices of
	 * this sequence straddle the wrap-around of the unsigned long counters */
	URCU_TLS(defer_queue).head = URCU_TLS(defer_queue).tail = (unsigned long)vrt_param("start_idx", 0);
#endif
	for (i = 0; i < len; i++) {
		int c = vrt_choose(3 * 4 + 3);

		if (c < 12) {
			do_defer(0, c / 4, args_seq[c % 4]);
		} else if (c == 12) {
			BLOCKING(rcu_defer_barrier());
			check_log("seq/barrier", 0, 1);
		} else if (c == 14) {
			BLOCKING(rcu_defer_barrier_thread());	/* the calling thread's own queue only */
			check_log("seq/barrier_thread", 0, 1);
		} else {
			BLOCKING(rcu_defer_unregister_thread());
			check_log("seq/unregister", 0, 1);
			registered = 0;
			VRT_CHECK(rcu_defer_register_thread() == 0, "re-registration failed");
			registered = 1;
		}
		vrt_outcome((unsigned long)c);
	}
	BLOCKING(rcu_defer_barrier());
	check_log("seq/final barrier", 0, 1);
	if (registered)
		BLOCKING(rcu_defer_unregister_thread());
	rcu_unregister_thread();
}

/* ---- concurrent scenarios ----------------------------------------------------------------------------- */
static int x, nready;
static int ready_pred(void *a) { return nready >= (int)(long)a; }

static void *reader(void *a)
{
	(void)a;
	rcu_register_thread();
	RD_LOCK();
	vrt_note_set(N_SECB, vrt_now());
	uatomic_inc(&nready);
	vrt_note_set(N_R(0), (unsigned long)LD(x));
	vrt_yield();
	vrt_note_set(N_R(1), (unsigned long)LD(yv[0]));
	vrt_note_set(N_R(2), (unsigned long)LD(yv[1]));
	vrt_note_set(N_SECE, vrt_now() + 1);
	RD_UNLOCK();
	rcu_unregister_thread();
	return NULL;
}

static void check_gp(const char *what, unsigned long call_time, int o)
{
	unsigned long sb = vrt_note_get(N_SECB), se = vrt_note_get(N_SECE);
	int i, rn = (int)vrt_note_get(RN(o));

	VRT_CHECK(!(vrt_note_get(N_R(0)) == 0 && (vrt_note_get(N_R(1)) == 1 || vrt_note_get(N_R(2)) == 1)),
		  "%s: reader saw a deferred call's store but not the store made before defer_rcu", what);
	if (!se)
		return;
	for (i = 0; i < rn && i < 16; i++)
		VRT_CHECK(!(sb < call_time && vrt_note_get(RTIME(o, i)) < se),
			  "%s: deferred call %d ran at %lu inside the section [%lu,%lu) that began before defer_rcu (%lu)", what, i,
			  vrt_note_get(RTIME(o, i)), sb, se, call_time);
}

static int all_ran(void *a) { return (int)vrt_note_get(RN(0)) >= (int)(long)a; }

/* owner defers two calls and then makes NO further API call: the reclaimer must run them */
static void run_background(void)
{
	pthread_t r;
	unsigned long ct;

	rcu_register_thread();
	rcu_defer_register_thread();
	pthread_create(&r, NULL, reader, NULL);
	BLOCKING(vrt_await(ready_pred, (void *)1L));
	ST(x, 1);
	ct = vrt_now() + 1;
	do_defer(0, 0, (void *)0x1000);
	do_defer(0, 1, (void *)0x2001);
	BLOCKING(vrt_await(all_ran, (void *)2L));
	BLOCKING(pthread_join(r, NULL));
	check_log("background", 0, 1);
	check_gp("background", ct, 0);
	BLOCKING(rcu_defer_unregister_thread());
	rcu_unregister_thread();
}

/* the last registered owner unregisters (which stops the reclaimer) while a new owner registers, queues one call and makes no
 * further API call: whichever way the two interleave, a reclaimer must be there afterwards to run it.  needs two_owners=1 */
static int owner1_ran(void *a) { (void)a; return (int)vrt_note_get(RN(1)) >= 1; }

static void *late_owner(void *a)
{
	(void)a;
	rcu_register_thread();
	VRT_CHECK(rcu_defer_register_thread() == 0, "rcu_defer_register_thread failed");
	do_defer(1, 0, (void *)0x1008);
	BLOCKING(vrt_await(owner1_ran, NULL));
	check_log("rereg_race", 1, 1);
	BLOCKING(rcu_defer_unregister_thread());
	rcu_unregister_thread();
	return NULL;
}

static void run_rereg_race(void)
{
	pthread_t o;

	rcu_register_thread();
	rcu_defer_register_thread();
	if (vrt_param("pending", 0))
		do_defer(0, 1, (void *)0x2000);	/* the leaving owner still has a call queued */
	pthread_create(&o, NULL, late_owner, NULL);
	BLOCKING(rcu_defer_unregister_thread());
	check_log("rereg_race/unregister", 0, 1);
	BLOCKING(pthread_join(o, NULL));
	rcu_unregister_thread();
}

/* owner defers then calls the barrier itself, racing with the reclaimer */
static void run_barrier(void)
{
	pthread_t r;
	unsigned long ct;

	rcu_register_thread();
	rcu_defer_register_thread();
	pthread_create(&r, NULL, reader, NULL);
	BLOCKING(vrt_await(ready_pred, (void *)1L));
	ST(x, 1);
	ct = vrt_now() + 1;
	do_defer(0, 0, (void *)0x1000);
	do_defer(0, 0, (void *)0x1001);
	do_defer(0, 1, (void *)-2L);
	BLOCKING(rcu_defer_barrier());	/* qsbr: a thread blocking on the defer mutex must be offline */
	check_log("barrier", 0, 1);
	BLOCKING(pthread_join(r, NULL));
	check_gp("barrier", ct, 0);
	BLOCKING(rcu_defer_unregister_thread());
	check_log("barrier/unregister", 0, 1);
	rcu_unregister_thread();
}

/* small queue: the owner fills it (self flush) while the reclaimer is active */
static void run_wrap(void)
{
	int i, n = (int)vrt_param("n", 7);

	rcu_register_thread();
	rcu_defer_register_thread();
	for (i = 0; i < n; i++)
		do_defer(0, i & 1, (void *)(0x1000UL + (unsigned long)(i * 16) + (unsigned long)(i % 3 == 2)));
	rcu_defer_barrier();
	check_log("wrap", 0, 1);
	rcu_defer_unregister_thread();
	rcu_unregister_thread();
}

static void *owner2(void *a)
{
	(void)a;
	rcu_register_thread();
	rcu_defer_register_thread();
	do_defer(1, 0, (void *)0x1008);
	do_defer(1, 1, (void *)0x2008);
	if (vrt_param("barrier_thread", 0)) {
		BLOCKING(rcu_defer_barrier_thread());
		check_log("two_owners/barrier_thread", 1, 1);
		do_defer(1, 0, (void *)0x3008);
	}
	rcu_defer_unregister_thread();	/* must run both before returning */
	check_log("two_owners/unregister", 1, 1);
	rcu_unregister_thread();
	return NULL;
}

static void *barrier_thread(void *a)
{
	(void)a;
	rcu_register_thread();
	rcu_defer_barrier();
	rcu_unregister_thread();
	return NULL;
}

/* two owners + a third thread issuing rcu_defer_barrier(); needs param two_owners=1 */
static void run_two_owners(void)
{
	pthread_t o, b;

	rcu_register_thread();
	rcu_defer_register_thread();
	pthread_create(&o, NULL, owner2, NULL);
	pthread_create(&b, NULL, barrier_thread, NULL);
	do_defer(0, 0, (void *)0x1000);
	do_defer(0, 1, (void *)0x2000);
	BLOCKING(pthread_join(b, NULL));
	BLOCKING(pthread_join(o, NULL));
	rcu_defer_barrier();
	check_log("two_owners", 0, 1);
	check_log("two_owners", 1, 1);
	rcu_defer_unregister_thread();
	rcu_unregister_thread();
}

/* a reader section that starts after the reclaimer's (or a barrier's) grace period has begun is not
 * covered by that grace period: calls deferred during that section must wait for one of their own */
#define N_S2B 400
#define N_S2E 401
#define N_CT(i) (410 + (i))
static void *reader2(void *a)
{
	(void)a;
	rcu_register_thread();
	RD_LOCK();
	vrt_note_set(N_SECB, vrt_now());
	uatomic_inc(&nready);
	(void)LD(x);
	vrt_yield();
	vrt_note_set(N_SECE, vrt_now() + 1);
	RD_UNLOCK();
	RD_LOCK();
	vrt_note_set(N_S2B, vrt_now());
	uatomic_inc(&nready);
	(void)LD(x);
	vrt_yield();
	(void)LD(yv[1]);
	vrt_note_set(N_S2E, vrt_now() + 1);
	RD_UNLOCK();
	rcu_unregister_thread();
	return NULL;
}

static void run_late_reader(void)
{
	pthread_t r, b;
	int i, j, third = (int)vrt_param("third_party", 0);

	rcu_register_thread();
	rcu_defer_register_thread();
	pthread_create(&r, NULL, reader2, NULL);
	BLOCKING(vrt_await(ready_pred, (void *)1L));
	ST(x, 1);
	vrt_note_set(N_CT(0), vrt_now() + 1);
	do_defer(0, 0, (void *)0x1000);		/* wakes the reclaimer: its grace period starts during section 1 */
	if (third)
		pthread_create(&b, NULL, barrier_thread, NULL);
	BLOCKING(vrt_await(ready_pred, (void *)2L));
	vrt_note_set(N_CT(1), vrt_now() + 1);
	do_defer(0, 1, (void *)0x2000);		/* section 2 is already running: it pre-exists this call */
	BLOCKING(vrt_await(all_ran, (void *)2L));
	BLOCKING(pthread_join(r, NULL));
	if (third)
		BLOCKING(pthread_join(b, NULL));
	check_log("late_reader", 0, 1);
	for (i = 0; i < 2; i++)
		for (j = 0; j < 2; j++) {
			unsigned long sb = vrt_note_get(j ? N_S2B : N_SECB), se = vrt_note_get(j ? N_S2E : N_SECE);

			VRT_CHECK(!(se && sb < vrt_note_get(N_CT(i)) && vrt_note_get(RTIME(0, i)) < se),
				  "late_reader: deferred call %d ran at %lu inside reader section %d [%lu,%lu) that began before its defer_rcu (%lu)",
				  i, vrt_note_get(RTIME(0, i)), j + 1, sb, se, vrt_note_get(N_CT(i)));
		}
	BLOCKING(rcu_defer_unregister_thread());
	rcu_unregister_thread();
}

struct vrt_scenario vrt_scenarios[] = {
	{ "seq", run_seq, "all operation sequences of length len over (fct,arg) x barrier x re-registration" },
	{ "background", run_background, "reclaimer runs queued calls with no further API call || reader" },
	{ "barrier", run_barrier, "owner barrier racing with the reclaimer || reader" },
	{ "rereg_race", run_rereg_race, "the last owner unregisters (reclaimer stops) || a new owner registers and relies on the background reclaimer" },
	{ "wrap", run_wrap, "queue wrap-around / self flush with the reclaimer active" },
	{ "two_owners", run_two_owners, "two owners, third-party barrier, unregistration" },
	{ "late_reader", run_late_reader, "a section beginning after the reclaimer's grace period started pre-exists a later defer_rcu" },
	{ NULL, NULL, NULL }
};
