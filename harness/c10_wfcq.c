/* C10 - wait-free concurrent queues (cds_wfcq, legacy cds_wfq) are linearizable FIFOs */
#include "vrt.h"
#include <urcu/wfcqueue.h>
#include <urcu/wfqueue.h>

const char *vrt_property_id = "C10";

enum { OP_ENQ = 1, OP_DEQ, OP_EMPTY, OP_SPLICE, OP_ITER, OP_DEQ_NB, OP_SPLICE_PUT };
#define WB (-1L)

struct item { struct cds_wfcq_node n; int id; };
static struct item items[8];
static struct cds_wfcq_head head[2];
static struct cds_wfcq_tail tail[2];
static struct __cds_wfcq_head uhead[2];		/* single-consumer (no mutex) variant */
static int api;					/* 0 locked blocking, 1 __blocking, 2 __nonblocking, 3 with_state */
static int unlocked;

static cds_wfcq_head_ptr_t H(int q)
{
	cds_wfcq_head_ptr_t r;

	if (unlocked)
		r._h = &uhead[q];
	else
		r.h = &head[q];
	return r;
}

static cds_wfcq_head_const_ptr_t HC(int q)
{
	cds_wfcq_head_const_ptr_t r;

	if (unlocked)
		r._h = &uhead[q];
	else
		r.h = &head[q];
	return r;
}

static void q_init(void)
{
	int i;

	api = (int)vrt_param("api", 0);
	unlocked = api == 1 || api == 2 || api == 4;
	for (i = 0; i < 8; i++) {
		cds_wfcq_node_init(&items[i].n);
		items[i].id = i;
	}
	for (i = 0; i < 2; i++) {
		if (unlocked)
			__cds_wfcq_init(&uhead[i], &tail[i]);
		else
			cds_wfcq_init(&head[i], &tail[i]);
	}
}

static long node_id(struct cds_wfcq_node *n)
{
	if (!n)
		return 0;
	if (n == CDS_WFCQ_WOULDBLOCK)
		return WB;
	return caa_container_of(n, struct item, n)->id;
}

static void do_enq(int q, int id)
{
	int h = vrt_h_call(OP_ENQ, q, id);
	bool r = cds_wfcq_enqueue(H(q), &tail[q], &items[id].n);

	/* x86-TSO: the enqueue's last store (old_tail->next) may still sit in the store buffer when the call
	 * returns; for the "WOULDBLOCK only while an enqueue is in flight" rule the operation lasts until its
	 * stores are globally visible */
	cmm_smp_mb();
	vrt_h_ret(h, r);
}

static long do_deq(int q)
{
	struct cds_wfcq_node *n;
	int state = 0, h;

	switch (api) {
	case 0:
		h = vrt_h_call(OP_DEQ, q, 0);
		n = cds_wfcq_dequeue_blocking(&head[q], &tail[q]);
		vrt_h_ret2(h, node_id(n), -1);
		break;
	case 1:
		h = vrt_h_call(OP_DEQ, q, 0);
		n = __cds_wfcq_dequeue_blocking(H(q), &tail[q]);
		vrt_h_ret2(h, node_id(n), -1);
		break;
	case 2:
		h = vrt_h_call(OP_DEQ_NB, q, 0);
		n = __cds_wfcq_dequeue_with_state_nonblocking(H(q), &tail[q], &state);
		vrt_h_ret2(h, node_id(n), n == CDS_WFCQ_WOULDBLOCK ? -1 : !!(state & CDS_WFCQ_STATE_LAST));
		break;
	case 4:
		h = vrt_h_call(OP_DEQ, q, 0);
		n = __cds_wfcq_dequeue_with_state_blocking(H(q), &tail[q], &state);
		vrt_h_ret2(h, node_id(n), !!(state & CDS_WFCQ_STATE_LAST));
		break;
	default:
		h = vrt_h_call(OP_DEQ, q, 0);
		n = cds_wfcq_dequeue_with_state_blocking(&head[q], &tail[q], &state);
		vrt_h_ret2(h, node_id(n), !!(state & CDS_WFCQ_STATE_LAST));
		break;
	}
	return node_id(n);
}

static void do_empty(int q)
{
	int h = vrt_h_call(OP_EMPTY, q, 0);
	bool r = cds_wfcq_empty(HC(q), &tail[q]);

	vrt_h_ret(h, r);
}

static void do_splice(int dst, int src)
{
	/* splice is not atomic across the two queues: the nodes leave the source at one instant
	 * and reach the destination at a later one; both instants lie inside the call */
	int h = vrt_h_call(OP_SPLICE, dst, src);
	int h2 = vrt_h_add(OP_SPLICE_PUT, dst, src);
	enum cds_wfcq_ret r;

	if (unlocked)
		r = api == 2 ? __cds_wfcq_splice_nonblocking(H(dst), &tail[dst], H(src), &tail[src])
			     : __cds_wfcq_splice_blocking(H(dst), &tail[dst], H(src), &tail[src]);
	else
		r = cds_wfcq_splice_blocking(&head[dst], &tail[dst], &head[src], &tail[src]);
	cmm_smp_mb();	/* see do_enq() */
	vrt_h_ret(h, (long)r);
	vrt_h_ret(h2, (long)r);
}

static void do_iter(int q)
{
	struct cds_wfcq_node *n;
	long enc = 0;
	int h = vrt_h_call(OP_ITER, q, 0), cnt = 0;

	if (!unlocked)
		cds_wfcq_dequeue_lock(&head[q], &tail[q]);
	if (api == 2) {
		for (n = __cds_wfcq_first_nonblocking(H(q), &tail[q]); n && n != CDS_WFCQ_WOULDBLOCK && cnt < 6;
		     n = __cds_wfcq_next_nonblocking(H(q), &tail[q], n), cnt++)
			enc = enc * 8 + node_id(n);
		if (n == CDS_WFCQ_WOULDBLOCK)
			enc = -1 - enc;		/* partial walk, ended by WOULDBLOCK */
	} else {
		__cds_wfcq_for_each_blocking(H(q), &tail[q], n) {
			enc = enc * 8 + node_id(n);
			if (++cnt > 6)
				vrt_fail("iteration does not terminate / visits too many nodes");
		}
	}
	if (!unlocked)
		cds_wfcq_dequeue_unlock(&head[q], &tail[q]);
	vrt_h_ret(h, enc);
}

/* ---- sequential specification: two FIFO lists of ids ----------------------------------------- */
struct qspec { int n[2]; int e[2][8]; int fl_taken[4]; int fl_n[4]; int fl[4][8]; };

static void spec_init(void *st) { memset(st, 0, sizeof(struct qspec)); }

static int spec_apply(void *st, const struct vrt_hop *o)
{
	struct qspec *s = st;
	int q = (int)o->a0, i;

	switch (o->op) {
	case OP_ENQ:
		if (o->ret != (s->n[q] > 0))
			return 0;
		s->e[q][s->n[q]++] = (int)o->a1;
		return 1;
	case OP_DEQ_NB:
		if (o->ret == WB)
			return 1;	/* legality of WOULDBLOCK is checked separately */
		/* fall through */
	case OP_DEQ:
		if (s->n[q] == 0)
			return o->ret == 0;
		if (o->ret != s->e[q][0])
			return 0;
		for (i = 1; i < s->n[q]; i++)
			s->e[q][i - 1] = s->e[q][i];
		s->n[q]--;
		if (o->ret2 >= 0 && o->ret2 != (s->n[q] == 0))
			return 0;
		return 1;
	case OP_EMPTY:
		return o->ret == (s->n[q] == 0);
	case OP_SPLICE: {
		int src = (int)o->a1;

		if (s->fl_taken[o->tid])
			return 0;
		s->fl_taken[o->tid] = 1;
		s->fl_n[o->tid] = 0;
		if (o->ret == CDS_WFCQ_RET_WOULDBLOCK)
			return 1;
		if (s->n[src] == 0)
			return o->ret == CDS_WFCQ_RET_SRC_EMPTY;
		if (o->ret == CDS_WFCQ_RET_SRC_EMPTY)
			return 0;
		for (i = 0; i < s->n[src]; i++)
			s->fl[o->tid][s->fl_n[o->tid]++] = s->e[src][i];
		s->n[src] = 0;
		return 1;
	}
	case OP_SPLICE_PUT:
		if (!s->fl_taken[o->tid])
			return 0;
		s->fl_taken[o->tid] = 0;
		if (o->ret == CDS_WFCQ_RET_WOULDBLOCK || o->ret == CDS_WFCQ_RET_SRC_EMPTY)
			return s->fl_n[o->tid] == 0;
		if (o->ret != (s->n[q] ? CDS_WFCQ_RET_DEST_NON_EMPTY : CDS_WFCQ_RET_DEST_EMPTY))
			return 0;
		for (i = 0; i < s->fl_n[o->tid]; i++)
			s->e[q][s->n[q]++] = s->fl[o->tid][i];
		s->fl_n[o->tid] = 0;
		return 1;
	case OP_ITER: {
		long enc = 0;

		if (o->ret < 0) {
			/* non-blocking walk cut short: must be a prefix of the queue */
			long part = -1 - o->ret, p = 0;
			int k, len = 0;
			long t = part;

			while (t) { len++; t /= 8; }
			if (len > s->n[q])
				return 0;
			for (k = 0; k < len; k++)
				p = p * 8 + s->e[q][k];
			return p == part;
		}
		for (i = 0; i < s->n[q]; i++)
			enc = enc * 8 + s->e[q][i];
		return enc == o->ret;
	}
	}
	return 0;
}

static const struct vrt_lin_spec qspec = { sizeof(struct qspec), spec_init, spec_apply };

static void final_checks(const char *what)
{
	int i, j, n = vrt_h_count();
	int seen[8] = { 0 }, enq[8] = { 0 };

	vrt_lin_assert(&qspec, what);
	/* WOULDBLOCK only while some enqueue/splice is in flight */
	for (i = 0; i < n; i++) {
		struct vrt_hop *o = vrt_h_get(i);
		int overl = 0;

		if (o->op == OP_ENQ)
			enq[o->a1]++;
		if ((o->op == OP_DEQ || o->op == OP_DEQ_NB) && o->ret > 0)
			seen[o->ret]++;
		if (!((o->op == OP_DEQ_NB && o->ret == WB) || (o->op == OP_ITER && o->ret < 0) ||
		      (o->op == OP_SPLICE && o->ret == CDS_WFCQ_RET_WOULDBLOCK)))
			continue;
		for (j = 0; j < n; j++) {
			struct vrt_hop *e = vrt_h_get(j);

			if ((e->op == OP_ENQ || e->op == OP_SPLICE) && e->tid != o->tid &&
			    e->call < o->rett && o->call < e->rett)
				overl = 1;
		}
		VRT_CHECK(overl, "%s: WOULDBLOCK although no enqueue/splice was in progress", what);
	}
	for (i = 0; i < 8; i++)
		VRT_CHECK(seen[i] <= 1 && seen[i] <= enq[i], "%s: node %d dequeued %d times (enqueued %d)", what, i,
			  seen[i], enq[i]);
}

/* ---- scenarios -------------------------------------------------------------------------------- */
static void *t_enq12(void *a) { (void)a; do_enq(0, 1); do_enq(0, 2); return NULL; }
static void *t_enq3(void *a) { (void)a; do_enq(0, 3); return NULL; }
static void *t_enq1(void *a) { (void)a; do_enq(0, 1); return NULL; }
static void *t_enq2(void *a) { (void)a; do_enq(0, 2); return NULL; }

/* two enqueuers, main thread dequeues three times */
static void run_mpsc(void)
{
	pthread_t a, b;
	int i, nd = (int)vrt_param("ndeq", 3);

	q_init();
	pthread_create(&a, NULL, t_enq12, NULL);
	pthread_create(&b, NULL, t_enq3, NULL);
	for (i = 0; i < nd; i++)
		do_deq(0);
	pthread_join(a, NULL);
	pthread_join(b, NULL);
	/* drain: conservation */
	for (i = 0; i < 4; i++)
		if (do_deq(0) == 0)
			break;
	final_checks("mpsc");
	{
		int k, tot = 0;

		for (k = 0; k < vrt_h_count(); k++)
			if ((vrt_h_get(k)->op == OP_DEQ || vrt_h_get(k)->op == OP_DEQ_NB) && vrt_h_get(k)->ret > 0)
				tot++;
		VRT_CHECK(tot == 3, "mpsc: %d of 3 nodes came out after quiescence", tot);
	}
}

/* one pre-filled element; an enqueuer races with the dequeue of the last element and empty() */
static void run_last(void)
{
	pthread_t a;

	q_init();
	do_enq(0, 4);
	pthread_create(&a, NULL, t_enq1, NULL);
	do_deq(0);
	do_empty(0);
	do_deq(0);
	pthread_join(a, NULL);
	do_deq(0);
	do_empty(0);
	final_checks("last");
}

static void *t_deq2(void *a) { (void)a; do_deq(0); do_deq(0); return NULL; }

/* two dequeuers serialised by the queue's own mutex (api 0/3 only) + one enqueuer */
static void run_mpmc(void)
{
	pthread_t a, b;

	q_init();
	do_enq(0, 4);
	pthread_create(&a, NULL, t_enq12, NULL);
	pthread_create(&b, NULL, t_deq2, NULL);
	do_deq(0);
	pthread_join(a, NULL);
	pthread_join(b, NULL);
	while (do_deq(0) > 0)
		;
	final_checks("mpmc");
}

static void *t_splice(void *a) { (void)a; do_splice(1, 0); return NULL; }

/* enqueuers on the source, a splicer moving source to destination, main dequeues destination */
static void run_splice(void)
{
	pthread_t a, b, c;
	int pre = (int)vrt_param("pre", 0);

	q_init();
	if (pre & 1)
		do_enq(0, 4);		/* source pre-filled */
	if (pre & 2)
		do_enq(1, 5);		/* destination pre-filled */
	pthread_create(&a, NULL, t_enq1, NULL);
	pthread_create(&b, NULL, t_splice, NULL);
	if (vrt_param("enq2", 0))
		pthread_create(&c, NULL, t_enq2, NULL);
	do_deq(1);
	do_empty(0);
	pthread_join(a, NULL);
	pthread_join(b, NULL);
	if (vrt_param("enq2", 0))
		pthread_join(c, NULL);
	/* source must be reusable */
	do_enq(0, 6);
	do_splice(1, 0);
	while (do_deq(1) > 0)
		;
	do_empty(0);
	do_empty(1);
	final_checks("splice");
}

/* locked API only: a dequeuer of the SOURCE queue races with a splice out of it (both take the source's dequeue lock) */
static void run_splice_src(void)
{
	pthread_t a, b;

	q_init();
	do_enq(0, 4);
	do_enq(0, 5);
	pthread_create(&a, NULL, t_enq1, NULL);
	pthread_create(&b, NULL, t_splice, NULL);
	do_deq(0);
	do_deq(0);
	pthread_join(a, NULL);
	pthread_join(b, NULL);
	while (do_deq(0) > 0)
		;
	while (do_deq(1) > 0)
		;
	do_empty(0);
	do_empty(1);
	final_checks("splice_src");
}

static void *t_splice_rev(void *a) { (void)a; do_enq(1, 2); return NULL; }

/* destination being enqueued to while it receives a splice */
static void run_splice_dst(void)
{
	pthread_t a, b;

	q_init();
	do_enq(0, 4);
	do_enq(0, 5);
	pthread_create(&a, NULL, t_splice_rev, NULL);
	pthread_create(&b, NULL, t_splice, NULL);
	do_deq(1);
	pthread_join(a, NULL);
	pthread_join(b, NULL);
	while (do_deq(1) > 0)
		;
	final_checks("splice_dst");
}

/* iteration concurrent with enqueuers */
static void run_iter(void)
{
	pthread_t a, b;

	q_init();
	do_enq(0, 4);
	pthread_create(&a, NULL, t_enq12, NULL);
	pthread_create(&b, NULL, t_enq3, NULL);
	do_iter(0);
	do_deq(0);
	do_iter(0);
	pthread_join(a, NULL);
	pthread_join(b, NULL);
	do_iter(0);
	final_checks("iter");
}

/* ---- legacy cds_wfq ---------------------------------------------------------------------------- */
struct litem { struct cds_wfq_node n; int id; };
static struct litem litems[8];
static struct cds_wfq_queue lq;

static void l_enq(int id)
{
	int h = vrt_h_call(OP_ENQ, 0, id);

	cds_wfq_enqueue(&lq, &litems[id].n);
	vrt_h_ret(h, -1);
}

static long l_deq(void)
{
	int h = vrt_h_call(OP_DEQ, 0, 0);
	/* single=1: one dequeuer, which therefore may use the unsynchronised entry point */
	struct cds_wfq_node *n = vrt_param("single", 0) ? __cds_wfq_dequeue_blocking(&lq) : cds_wfq_dequeue_blocking(&lq);
	long id = n ? caa_container_of(n, struct litem, n)->id : 0;

	vrt_h_ret2(h, id, -1);
	return id;
}

static int lspec_apply(void *st, const struct vrt_hop *o)
{
	if (o->op == OP_ENQ) {
		struct qspec *s = st;

		s->e[0][s->n[0]++] = (int)o->a1;
		return 1;
	}
	return spec_apply(st, o);
}
static const struct vrt_lin_spec lspec = { sizeof(struct qspec), spec_init, lspec_apply };

static void *lt_enq12(void *a) { (void)a; l_enq(1); l_enq(2); return NULL; }
static void *lt_enq3(void *a) { (void)a; l_enq(3); return NULL; }
static void *lt_deq(void *a) { (void)a; l_deq(); return NULL; }

static void run_legacy(void)
{
	pthread_t a, b, c;
	int i, tot = 0;

	for (i = 0; i < 8; i++) {
		cds_wfq_node_init(&litems[i].n);
		litems[i].id = i;
	}
	cds_wfq_init(&lq);
	pthread_create(&a, NULL, lt_enq12, NULL);
	pthread_create(&b, NULL, lt_enq3, NULL);
	if (!vrt_param("single", 0))
		pthread_create(&c, NULL, lt_deq, NULL);
	l_deq();
	l_deq();
	pthread_join(a, NULL);
	pthread_join(b, NULL);
	if (!vrt_param("single", 0))
		pthread_join(c, NULL);
	while (l_deq() > 0)
		;
	vrt_lin_assert(&lspec, "legacy wfq");
	for (i = 0; i < vrt_h_count(); i++)
		if (vrt_h_get(i)->op == OP_DEQ && vrt_h_get(i)->ret > 0)
			tot++;
	VRT_CHECK(tot == 3, "legacy wfq: %d of 3 nodes came out", tot);
	cds_wfq_destroy(&lq);
}

struct vrt_scenario vrt_scenarios[] = {
	{ "mpsc", run_mpsc, "2 enqueuers (3 nodes) || dequeuer; param api, ndeq" },
	{ "last", run_last, "enqueue racing with dequeue of the last node and empty()" },
	{ "mpmc", run_mpmc, "enqueuer || 2 locked dequeuers" },
	{ "splice", run_splice, "enqueuer(s) on src || splice src->dst || dequeue dst; param pre, enq2, api" },
	{ "splice_src", run_splice_src, "locked API: dequeue of the source || splice out of it || enqueue" },
	{ "splice_dst", run_splice_dst, "enqueue on dst || splice src->dst || dequeue dst" },
	{ "iter", run_iter, "iteration || enqueuers" },
	{ "legacy", run_legacy, "legacy cds_wfq: 2 enqueuers || 2 dequeuers" },
	{ NULL, NULL, NULL }
};
