/* smoke tests of the vrt runtime itself (not a property check) */
#include "vrt.h"
#include <urcu/uatomic.h>

const char *vrt_property_id = "SMOKE";
static int x, y, r1, r2;
static int use_mb;

static void *sb_t1(void *a) { (void)a; uatomic_store(&x, 1); if (use_mb) cmm_smp_mb(); r1 = uatomic_load(&y); return NULL; }
static void *sb_t2(void *a) { (void)a; uatomic_store(&y, 1); if (use_mb) cmm_smp_mb(); r2 = uatomic_load(&x); return NULL; }

static void run_sb(void)
{
	pthread_t a, b;
	use_mb = (int)vrt_param("mb", 0);
	pthread_create(&a, NULL, sb_t1, NULL);
	pthread_create(&b, NULL, sb_t2, NULL);
	pthread_join(a, NULL);
	pthread_join(b, NULL);
	vrt_outcome((unsigned long)(r1 * 2 + r2));
	VRT_CHECK(!(r1 == 0 && r2 == 0), "store buffering: r1=0 r2=0");
}

/* message passing must never fail under TSO */
static int data, flag;
static void *mp_w(void *a) { (void)a; data = 42; uatomic_store(&flag, 1); return NULL; }
static void *mp_r(void *a) { (void)a; if (uatomic_load(&flag)) { int d = data; vrt_outcome((unsigned long)d); VRT_CHECK(d == 42, "mp: flag seen, data=%d", d); } return NULL; }
static void run_mp(void)
{
	pthread_t a, b;
	pthread_create(&a, NULL, mp_w, NULL);
	pthread_create(&b, NULL, mp_r, NULL);
	pthread_join(a, NULL);
	pthread_join(b, NULL);
}

/* non-atomic increment: lost update needs one preemption on a promoted plain access */
static int counter;
static void *inc(void *a) { (void)a; int v = counter; counter = v + 1; return NULL; }
static void run_lost(void)
{
	pthread_t a, b;
	pthread_create(&a, NULL, inc, NULL);
	pthread_create(&b, NULL, inc, NULL);
	pthread_join(a, NULL);
	pthread_join(b, NULL);
	vrt_outcome((unsigned long)counter);
	VRT_CHECK(counter == 2, "lost update: counter=%d", counter);
}

static unsigned long cnt2;
static void *inc2(void *a) { (void)a; uatomic_inc(&cnt2); uatomic_add(&cnt2, 2); return NULL; }
static void run_rmw(void)
{
	pthread_t a, b;
	pthread_create(&a, NULL, inc2, NULL);
	pthread_create(&b, NULL, inc2, NULL);
	pthread_join(a, NULL);
	pthread_join(b, NULL);
	VRT_CHECK(cnt2 == 6, "rmw: cnt=%lu", cnt2);
}

static pthread_mutex_t m1 = PTHREAD_MUTEX_INITIALIZER, m2 = PTHREAD_MUTEX_INITIALIZER;
static void *l12(void *a) { (void)a; pthread_mutex_lock(&m1); pthread_mutex_lock(&m2); pthread_mutex_unlock(&m2); pthread_mutex_unlock(&m1); return NULL; }
static void *l21(void *a) { (void)a; pthread_mutex_lock(&m2); pthread_mutex_lock(&m1); pthread_mutex_unlock(&m1); pthread_mutex_unlock(&m2); return NULL; }
static void run_dl(void)
{
	pthread_t a, b;
	pthread_create(&a, NULL, l12, NULL);
	pthread_create(&b, NULL, l21, NULL);
	pthread_join(a, NULL);
	pthread_join(b, NULL);
}

static void *uaf_t(void *p) { int *q = p; vrt_outcome((unsigned long)*q); return NULL; }
static void run_uaf(void)
{
	pthread_t a;
	int *p = malloc(sizeof(int));
	*p = 1;
	pthread_create(&a, NULL, uaf_t, p);
	free(p);
	pthread_join(a, NULL);
}

struct vrt_scenario vrt_scenarios[] = {
	{ "sb", run_sb, "store buffering litmus (param mb=0/1)" },
	{ "mp", run_mp, "message passing litmus" },
	{ "lost", run_lost, "non-atomic increment" },
	{ "rmw", run_rmw, "atomic increments" },
	{ "dl", run_dl, "lock order inversion" },
	{ "uaf", run_uaf, "use after free" },
	{ NULL, NULL, NULL }
};
