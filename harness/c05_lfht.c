/* C05-C09 - cds_lfht: sequential equivalence with a reference multimap over all operation sequences
 * (scenario "seq"), and linearizability / uniqueness / single-owner / reclamation / resize safety over
 * all schedules of small concurrent programs (scenario "conc").  The table is bound to the
 * specification flavor (grace periods end as early as the specification allows). */
#include "vrt.h"
#define URCU_API_MAP
#if defined(FLAVOR_SPEC)
#include <urcu/urcu-spec.h>
#define RDL()		vrt_spec_read_lock()
#define RDU()		vrt_spec_read_unlock()
#define SYNC()		vrt_spec_synchronize()
#define REG()		do { } while (0)
#define UNREG()		do { } while (0)
#define THE_FLAVOR	(&urcu_spec_flavor)
#else
/* the same scenarios with the table bound to a real flavor (shallower budgets: a real grace period is ~50 steps) */
#if defined(FLAVOR_MEMB)
#include <urcu/urcu-memb.h>
#elif defined(FLAVOR_MB)
#include <urcu/urcu-mb.h>
#elif defined(FLAVOR_BP)
#include <urcu/urcu-bp.h>
#elif defined(FLAVOR_QSBR)
#include <urcu/urcu-qsbr.h>
#endif
#ifdef FLAVOR_QSBR
/* qsbr: a registered thread is inside a read-side section whenever it is online; sections end at quiescent states, and a thread that
 * waits for other threads must be offline meanwhile */
#define RDL()		do { } while (0)
#define RDU()		rcu_quiescent_state()
#define WAIT_BEGIN()	rcu_thread_offline()
#define WAIT_END()	rcu_thread_online()
#else
#define RDL()		rcu_read_lock()
#define RDU()		rcu_read_unlock()
#endif
#define SYNC()		synchronize_rcu()
#define REG()		rcu_register_thread()
#define UNREG()		rcu_unregister_thread()
#define THE_FLAVOR	(&rcu_flavor)
#endif
#ifndef WAIT_BEGIN
#define WAIT_BEGIN()	do { } while (0)
#define WAIT_END()	do { } while (0)
#endif
#include <urcu/rculfhash.h>
#include "rculfhash-internal.h"
/* layout mirror of the private split-counter type of rculfhash.c (only used for the canonical state key) */
struct ht_items_count { unsigned long add, del; } __attribute__((__aligned__(CAA_CACHE_LINE_SIZE)));
static unsigned long vrt_mix(unsigned long h, unsigned long v)
{
	h ^= v + 0x9e3779b97f4a7c15UL + (h << 6) + (h >> 2);
	h *= 0xff51afd7ed558ccdUL;
	return h ^ (h >> 32);
}

const char *vrt_property_id = "C05";

#define MAXN 32			/* node ids 1..31 */
struct hnode { struct cds_lfht_node n; int key; int id; };
static struct hnode *nodes[MAXN];
static int node_key[MAXN];
static struct cds_lfht *ht;
static int cfg_init, cfg_min, cfg_max, cfg_flags, cfg_mm, cfg_custom, cfg_hmap;
static unsigned long max_eff;

/* key -> hash maps: forced collisions, bucket-split straddling and adversarial bit patterns */
static const unsigned long HM[5][4] = {
	{ 0, 0, 0, 0 },				/* 0: all keys share one hash */
	{ 0, 1, 2, 3 },				/* 1: distinct low bits */
	{ 0, 2, 0, 1 },				/* 2: keys 0,2 share a hash; 0/1 same bucket at size 2, split at 4 */
	{ 0, ~0UL, 1UL << 63, 1 },		/* 3: adversarial: 0, ~0, only the top bit */
	{ 1, 3, 5, 7 },				/* 4: all in bucket 1 at size 2, spread at size 4 and 8 */
};
static unsigned long hash_of(int key) { return HM[cfg_hmap][key & 3]; }

static int match(struct cds_lfht_node *n, const void *key)
{
	return caa_container_of(n, struct hnode, n)->key == *(const int *)key;
}

static int id_of(struct cds_lfht_node *n)
{
	struct hnode *h;
	int id, ok;

	if (!n)
		return 0;

	h = caa_container_of(n, struct hnode, n);
	id = h->id;
	vrt_quiet_begin();
	ok = id > 0 && id < MAXN && nodes[id] == h;
	vrt_quiet_end();
	if (!ok)
		vrt_fail("the table returned a node that is not a user node (%p)", (void *)n);
	return id;
}

static struct hnode *mknode(int id, int key)
{
	struct hnode *h = malloc(sizeof(*h));

	if (id <= 0 || id >= MAXN || nodes[id])
		vrt_internal("bad node id %d", id);
	cds_lfht_node_init(&h->n);
	h->key = key;
	h->id = id;
	vrt_quiet_begin();
	nodes[id] = h;
	node_key[id] = key;
	vrt_quiet_end();
	return h;
}

/* ---- recording allocator (custom cds_lfht_alloc) -------------------------------------------------- */
#define N_LIVE 200		/* live blocks of the custom allocator */
/* their addresses: a block handed to free() must have come from this allocator (bookkeeping invisible to the memory model) */
#define N_LIVEP_MAX 16384	/* open-addressing set of block addresses (tombstone = 1) */
static unsigned long ra_livep[N_LIVEP_MAX];
static unsigned ra_hash(const void *p) { return (unsigned)(((unsigned long)p >> 4) * 2654435761UL) & (N_LIVEP_MAX - 1); }
static void ra_track(void *p)
{
	unsigned h, n;
	int done = 0;

	if (!p)
		return;
	vrt_note_inc(N_LIVE);
	vrt_quiet_begin();
	for (h = ra_hash(p), n = 0; n < N_LIVEP_MAX && !done; n++, h = (h + 1) & (N_LIVEP_MAX - 1))
		if (ra_livep[h] <= 1) {
			ra_livep[h] = (unsigned long)p;
			done = 1;
		}
	vrt_quiet_end();
	if (!done)
		vrt_internal("recording allocator: too many live blocks");
}
static void ra_untrack(void *p, const char *who)
{
	unsigned h, n;
	int done = 0;

	vrt_quiet_begin();
	for (h = ra_hash(p), n = 0; n < N_LIVEP_MAX && !done && ra_livep[h]; n++, h = (h + 1) & (N_LIVEP_MAX - 1))
		if (ra_livep[h] == (unsigned long)p) {
			ra_livep[h] = 1;
			done = 1;
		}
	vrt_quiet_end();
	if (done)
		vrt_note_set(N_LIVE, vrt_note_get(N_LIVE) - 1);
	else
		vrt_fail("custom allocator: %s was handed block %p, which this allocator never returned (or already released)", who, p);
}
static void *ra_malloc(void *st, size_t n) { void *p = malloc(n); (void)st; ra_track(p); return p; }
static void *ra_calloc(void *st, size_t n, size_t m) { void *p = calloc(n, m); (void)st; ra_track(p); return p; }
static void *ra_realloc(void *st, void *p, size_t n)
{
	void *q;

	(void)st;
	if (p)
		ra_untrack(p, "realloc()");
	q = realloc(p, n);
	ra_track(q);
	return q;
}
static void *ra_aligned(void *st, size_t al, size_t n)
{
	void *p;

	(void)st;
	if (posix_memalign(&p, al, n))
		return NULL;
	ra_track(p);
	return p;
}
static void ra_free(void *st, void *p)
{
	(void)st;
	if (p)
		ra_untrack(p, "free()");
	free(p);
}
static struct cds_lfht_alloc rec_alloc = { ra_malloc, ra_calloc, ra_realloc, ra_aligned, ra_free, NULL };

static int pow2(long v) { return v > 0 && !(v & (v - 1)); }

/* param value, or an enumerated choice over dom[] when the param is -1 */
static long cfgval(const char *name, long dflt, const long *dom, int ndom)
{
	long v = vrt_param(name, dflt);

	if (v == -1)
		v = dom[vrt_choose(ndom)];
	return v;
}

/* creates the table; returns 0 if cds_lfht_new legitimately refused the parameters */
static int table_new(void)
{
	static const long d_init[] = { 1, 2, 4, 8, 0, 3 }, d_min[] = { 1, 2, 4, 0, 3 }, d_max[] = { 1, 2, 4, 8, 0, 6 };
	static const long d_flags[] = { 0, 1, 2, 3 }, d_mm[] = { 0, 1, 2, 3 }, d_cust[] = { 0, 1 };
	const struct cds_lfht_mm_type *mm;
	unsigned long mx;
	int expect_null;

	cfg_hmap = (int)vrt_param("hmap", 2);
	cfg_init = (int)cfgval("init", 1, d_init, 6);
	cfg_min = (int)cfgval("minb", 1, d_min, 5);
	cfg_max = (int)cfgval("maxb", 8, d_max, 6);
	cfg_flags = (int)cfgval("flags", 0, d_flags, 4);
	cfg_mm = (int)cfgval("mm", 0, d_mm, 4);
	cfg_custom = (int)cfgval("custom", 0, d_cust, 2);
	mm = cfg_mm == 0 ? &cds_lfht_mm_order : cfg_mm == 1 ? &cds_lfht_mm_chunk : cfg_mm == 2 ? &cds_lfht_mm_mmap : NULL;
	/* documented parameter rules: sizes are powers of two; max 0 means unlimited for the order
	 * allocator (and for the default choice, which then is the order allocator) */
	mx = (unsigned long)cfg_max;
	if ((cfg_mm == 0 || cfg_mm == 3) && mx == 0)
		mx = 1UL << (MAX_TABLE_ORDER - 1);
	expect_null = !pow2(cfg_min) || !pow2(cfg_init) || !(mx && !(mx & (mx - 1)));
	ht = _cds_lfht_new_with_alloc((unsigned long)cfg_init, (unsigned long)cfg_min, (unsigned long)cfg_max, cfg_flags, mm,
				      THE_FLAVOR, cfg_custom ? &rec_alloc : NULL, NULL);
	vrt_outcome((unsigned long)(ht != NULL));
	if (expect_null) {
		VRT_CHECK(!ht, "cds_lfht_new accepted invalid parameters init=%d min=%d max=%d", cfg_init, cfg_min, cfg_max);
		return 0;
	}
	VRT_CHECK(ht != NULL, "cds_lfht_new refused valid parameters init=%d min=%d max=%d flags=%d mm=%d", cfg_init, cfg_min,
		  cfg_max, cfg_flags, cfg_mm);
	max_eff = mx < (unsigned long)cfg_min ? (unsigned long)cfg_min : mx;
	return 1;
}

static unsigned long ht_size_quiet(void)
{
	unsigned long s;

	vrt_quiet_begin();
	s = ht->size;
	vrt_quiet_end();
	return s;
}

static void check_bounds(const char *when)
{
	unsigned long s = ht_size_quiet();

	VRT_CHECK(s >= 1 && s <= max_eff && !(s & (s - 1)), "%s: table has %lu buckets, allowed 1..%lu (power of two)", when, s,
		  max_eff);
}

/* =====================================================================================================
 * Sequential part (C08, sequential half of C09): every operation sequence against a reference multimap
 * ===================================================================================================== */
static int model[MAXN], nmodel;		/* ids of the nodes the reference multimap holds */
static int next_id = 1;
static int nkeys;

static int model_has(int id)
{
	int i;

	for (i = 0; i < nmodel; i++)
		if (model[i] == id)
			return 1;
	return 0;
}
static int model_count_key(int key)
{
	int i, c = 0;

	for (i = 0; i < nmodel; i++)
		if (node_key[model[i]] == key)
			c++;
	return c;
}
static void model_add(int id) { model[nmodel++] = id; }
static void model_del(int id)
{
	int i;

	for (i = 0; i < nmodel; i++)
		if (model[i] == id) {
			model[i] = model[--nmodel];
			return;
		}
	vrt_internal("model_del: %d not in model", id);
}

static void retire(int id)
{
	/* the owner may free the node one grace period after the removal returned */
	SYNC();
	free(nodes[id]);
}

/* nth (1-based) node with 'key' in duplicate-walk order, with the iterator positioned on it */
static int find_nth(int key, int nth, struct cds_lfht_iter *it)
{
	int i;

	cds_lfht_lookup(ht, hash_of(key), match, &key, it);
	for (i = 1; i < nth && cds_lfht_iter_get_node(it); i++)
		cds_lfht_next_duplicate(ht, match, &key, it);
	return id_of(cds_lfht_iter_get_node(it));
}

static int order_seq[MAXN], norder;	/* last full traversal (node ids in list order) */

static void seq_verify(const char *after)
{
	struct cds_lfht_iter it;
	unsigned seen = 0;
	int k, n = 0;
	long ab, aa;
	unsigned long cnt;

	RDL();
	/* full traversal: every stored node exactly once, nothing else */
	norder = 0;
	for (cds_lfht_first(ht, &it); cds_lfht_iter_get_node(&it); cds_lfht_next(ht, &it)) {
		int id = id_of(cds_lfht_iter_get_node(&it));

		VRT_CHECK(n++ <= nmodel, "after %s: traversal yields more nodes than are stored (%d)", after, nmodel);
		VRT_CHECK(model_has(id), "after %s: traversal yields node %d (key %d) which is not in the table", after, id,
			  node_key[id]);
		VRT_CHECK(!(seen & (1u << id)), "after %s: traversal yields node %d twice", after, id);
		seen |= 1u << id;
		order_seq[norder++] = id;
	}
	VRT_CHECK(n == nmodel, "after %s: traversal visits %d nodes, %d are stored", after, n, nmodel);
	/* per key: lookup + duplicate walk == the model's nodes with that key */
	for (k = 0; k < 4; k++) {
		int c = 0;
		unsigned ks = 0;

		cds_lfht_lookup(ht, hash_of(k), match, &k, &it);
		while (cds_lfht_iter_get_node(&it)) {
			int id = id_of(cds_lfht_iter_get_node(&it));

			VRT_CHECK(c++ <= nmodel, "after %s: duplicate walk of key %d does not terminate", after, k);
			VRT_CHECK(model_has(id) && node_key[id] == k, "after %s: lookup(%d) yields node %d (key %d, %s)", after, k, id,
				  node_key[id], model_has(id) ? "stored" : "not stored");
			VRT_CHECK(!(ks & (1u << id)), "after %s: duplicate walk of key %d yields node %d twice", after, k, id);
			ks |= 1u << id;
			VRT_CHECK(!cds_lfht_is_node_deleted(cds_lfht_iter_get_node(&it)), "stored node %d reported deleted", id);
			cds_lfht_next_duplicate(ht, match, &k, &it);
		}
		VRT_CHECK(c == model_count_key(k), "after %s: lookup+next_duplicate finds %d nodes with key %d, %d are stored", after,
			  c, k, model_count_key(k));
	}
	cds_lfht_count_nodes(ht, &ab, &cnt, &aa);
	RDU();
	VRT_CHECK(cnt == (unsigned long)nmodel, "after %s: count_nodes says %lu, %d are stored", after, cnt, nmodel);
	if (cfg_flags & CDS_LFHT_ACCOUNTING)
		VRT_CHECK(ab == nmodel && aa == nmodel, "after %s: split-counter totals %ld/%ld, %d nodes stored", after, ab, aa,
			  nmodel);
	else
		VRT_CHECK(ab == 0 && aa == 0, "after %s: approximate counts %ld/%ld without accounting", after, ab, aa);
	check_bounds(after);
}

static unsigned long seq_state_key(void)
{
	unsigned long h = 0x1234;
	int i;

	vrt_quiet_begin();
	h = vrt_mix(h, (unsigned long)cfg_init * 1000003 + (unsigned long)cfg_min * 10007 + (unsigned long)cfg_max * 101 +
		    (unsigned long)cfg_flags * 13 + (unsigned long)cfg_mm * 5 + (unsigned long)cfg_custom);
	for (i = 0; i < norder; i++)
		h = vrt_mix(h, (unsigned long)node_key[order_seq[i]] + 1);
	h = vrt_mix(h, ht->size);
	/* allocator-internal state the table does not show: levels above the current size that were populated once and released again
	 * (a later grow re-uses what the release left behind) - abstracted by the largest size reached so far */
	{
		static unsigned long peak_size;

		if (ht->size > peak_size)
			peak_size = ht->size;
		h = vrt_mix(h, peak_size);
	}
	h = vrt_mix(h, ht->resize_target);
	h = vrt_mix(h, (unsigned long)ht->resize_initiated);
	h = vrt_mix(h, (unsigned long)ht->count);
	if (ht->split_count) {
		unsigned long m = (1UL << vrt_param_count_commit_order) - 1;

		h = vrt_mix(h, (ht->split_count[0].add & m) * 64 + (ht->split_count[0].del & m));
		h = vrt_mix(h, (ht->split_count[1].add & m) * 64 + (ht->split_count[1].del & m));
	}
	h = vrt_mix(h, vrt_note_get(N_LIVE));
	vrt_quiet_end();
	return h;
}

/* let a lazily queued resize run (deterministic: the default schedule is round robin on yields) */
enum { W_LAZY_RESIZED = 0, W_PARTITIONED = 1, W_SEQ_DESTROYED = 2, W_WALK_CONCURRENT = 3, W_REMOVER_LOST = 4, W_ADDU_LOST = 5 };

static int settle(void)
{
	unsigned long s0 = ht_size_quiet();
	int i;

	if (!(cfg_flags & CDS_LFHT_AUTO_RESIZE))
		return 1;
	if (vrt_param("nosettle", 0))
		return 1;	/* lazily queued resizes stay pending: the worker only runs if this thread blocks; it is parked in the
				 * same place in every such state (the number of queued, idempotent work items is not part of the key) */
	WAIT_BEGIN();
	for (i = 0; i < 60; i++) {
		int busy;

		vrt_quiet_begin();
		busy = ht->resize_initiated || ht->size != ht->resize_target;
		vrt_quiet_end();
		if (!busy) {
			/* one more round so that the worker is parked again */
			vrt_yield();
			vrt_yield();
			if (ht_size_quiet() != s0)
				vrt_witness(W_LAZY_RESIZED);
			WAIT_END();
			return 1;
		}
		vrt_yield();
	}
	WAIT_END();
	return 0;
}

enum { S_ADD, S_ADDU, S_ADDR, S_REPL1, S_REPL2, S_DEL1, S_DEL2, S_REPLBAD, S_REPL_STALE_ADD, S_REPL_STALE_DEL, S_NKINDS };
static const unsigned long rs_sizes_small[] = { 0, 1, 2, 3, 4, 5, 8, 16, ~0UL, 1UL << 63, 6, 7 };
static const unsigned long rs_sizes_big[] = { 512, 256, 1024, 128, 0, 2048, 300, 64 };

static void run_seq(void)
{
	REG();
	int len = (int)vrt_param("len", 3), step, nrs = (int)vrt_param("nresize", 9);
	int nops, destroyed = 0, allowed[64], nallowed = 0, i, alpha_seq = (int)vrt_param("alpha_seq", 0);
	const unsigned long *rs_sizes = vrt_param("big", 0) ? rs_sizes_big : rs_sizes_small;
	char what[64];

	nkeys = (int)vrt_param("keys", 2);
	if (!table_new())
		return;
	seq_verify("creation");
	{
		/* a node initialised as "deleted" reports so and cannot be removed from a table it is not in */
		static struct cds_lfht_node dn;

		cds_lfht_node_init_deleted(&dn);
		VRT_CHECK(cds_lfht_is_node_deleted(&dn), "cds_lfht_node_init_deleted: node not reported deleted");
		RDL();
		VRT_CHECK(cds_lfht_del(ht, &dn) < 0, "cds_lfht_del of a node initialised as deleted succeeded");
		RDU();
	}
	nops = S_NKINDS * nkeys + nrs + 1;
	for (i = 0; i < nops && nallowed < 64; i++) {
		int k = i / nkeys;

		/* alpha_seq 1: resize-centred alphabet (add, del, every resize, destroy) */
		if (alpha_seq == 1 && i < S_NKINDS * nkeys && k != S_ADD && k != S_DEL1)
			continue;
		allowed[nallowed++] = i;
	}
	for (step = 0; step < len && !destroyed; step++) {
		int c = allowed[vrt_choose(nallowed)], kind, key, id, r;
		static char seqlog[400];
		static int seqpos;

		seqpos += snprintf(seqlog + seqpos, sizeof(seqlog) - (size_t)seqpos > 0 ? sizeof(seqlog) - (size_t)seqpos : 0, " %s%d",
				   c < S_NKINDS * nkeys ? (const char *[]){ "add", "add_unique", "add_replace", "replace1st", "replace2nd", "del1st",
				   "del2nd", "replace_badkey", "lookup;add;replace(stale_iter)", "lookup;del_successor;replace(stale_iter)" }[c / nkeys] : c < S_NKINDS * nkeys + nrs ? "resize#" : "destroy",
				   c < S_NKINDS * nkeys ? c % nkeys : c - S_NKINDS * nkeys);
		if (seqpos > 380)
			seqpos = 380;
		vrt_sample("init=%d min=%d max=%d flags=%d mm=%d custom=%d hmap=%d; ops:%s; stored nodes now %d, buckets %lu", cfg_init, cfg_min, cfg_max,
			   cfg_flags, cfg_mm, cfg_custom, cfg_hmap, seqlog, nmodel, ht_size_quiet());
		struct cds_lfht_iter it;
		struct cds_lfht_node *ret;

		vrt_outcome((unsigned long)c + 100);
		if (c < S_NKINDS * nkeys) {
			kind = c / nkeys;
			key = c % nkeys;
			snprintf(what, sizeof(what), "step %d op %d key %d", step, kind, key);
			switch (kind) {
			case S_ADD:
				id = next_id++;
				RDL();
				cds_lfht_add(ht, hash_of(key), &mknode(id, key)->n);
				RDU();
				model_add(id);
				break;
			case S_ADDU:
				id = next_id++;
				RDL();
				ret = cds_lfht_add_unique(ht, hash_of(key), match, &key, &mknode(id, key)->n);
				RDU();
				r = id_of(ret);
				if (model_count_key(key)) {
					VRT_CHECK(r != id && model_has(r) && node_key[r] == key,
						  "%s: add_unique with the key present returned node %d", what, r);
					free(nodes[id]);
				} else {
					VRT_CHECK(r == id, "%s: add_unique with the key absent returned node %d, not the new node", what, r);
					model_add(id);
				}
				break;
			case S_ADDR:
				id = next_id++;
				RDL();
				ret = cds_lfht_add_replace(ht, hash_of(key), match, &key, &mknode(id, key)->n);
				RDU();
				r = id_of(ret);
				if (model_count_key(key)) {
					VRT_CHECK(r && r != id && model_has(r) && node_key[r] == key,
						  "%s: add_replace with the key present returned node %d", what, r);
					VRT_CHECK(cds_lfht_is_node_deleted(&nodes[r]->n), "%s: replaced node %d not marked deleted", what, r);
					model_del(r);
					retire(r);
				} else
					VRT_CHECK(r == 0, "%s: add_replace with the key absent returned node %d", what, r);
				model_add(id);
				break;
			case S_REPL1: case S_REPL2: case S_REPLBAD: {
				int old, newid = next_id++, badkey = (key + 1) % 4;
				struct hnode *nn = mknode(newid, kind == S_REPLBAD ? badkey : key);

				RDL();
				old = find_nth(key, kind == S_REPL2 ? 2 : 1, &it);
				if (kind == S_REPLBAD)	/* new node's key/hash does not match the old node's */
					r = cds_lfht_replace(ht, &it, hash_of(badkey), match, &badkey, &nn->n);
				else
					r = cds_lfht_replace(ht, &it, hash_of(key), match, &key, &nn->n);
				RDU();
				VRT_CHECK((old != 0) == (model_count_key(key) >= (kind == S_REPL2 ? 2 : 1)),
					  "%s: duplicate walk found node %d, model has %d with the key", what, old, model_count_key(key));
				if (!old) {
					VRT_CHECK(r == -ENOENT, "%s: replace of an absent node returned %d", what, r);
					free(nn);
				} else if (kind == S_REPLBAD) {
					VRT_CHECK(r == -EINVAL, "%s: replace with a mismatching key returned %d", what, r);
					free(nn);
				} else {
					VRT_CHECK(r == 0, "%s: replace of stored node %d returned %d", what, old, r);
					model_del(old);
					model_add(newid);
					/* the stale iterator must not succeed a second time; a second del must fail */
					RDL();
					VRT_CHECK(cds_lfht_del(ht, &nodes[old]->n) < 0, "%s: del of replaced node %d succeeded", what, old);
					RDU();
					retire(old);
				}
				break;
			}
			case S_REPL_STALE_ADD: case S_REPL_STALE_DEL: {
				/* the iterator is kept across another update in the same read-side section (a stale iterator):
				 * replace must still either fail or swap exactly the looked-up node */
				int old, newid, extra = 0, succ = 0, i2;
				struct hnode *nn;

				RDL();
				old = find_nth(key, 1, &it);
				if (!old) {
					RDU();
					break;
				}
				if (kind == S_REPL_STALE_ADD) {
					extra = next_id++;
					cds_lfht_add(ht, hash_of(key), &mknode(extra, key)->n);	/* sorts right behind the equal-hash run */
					model_add(extra);
				} else {
					for (i2 = 0; i2 + 1 < norder; i2++)
						if (order_seq[i2] == old)
							succ = order_seq[i2 + 1];
					if (succ) {
						VRT_CHECK(cds_lfht_del(ht, &nodes[succ]->n) == 0, "%s: del of the successor %d failed", what, succ);
						model_del(succ);
					}
				}
				newid = next_id++;
				nn = mknode(newid, key);
				r = cds_lfht_replace(ht, &it, hash_of(key), match, &key, &nn->n);
				RDU();
				VRT_CHECK(r == 0, "%s: replace of stored node %d through an iterator taken before another update returned %d", what, old, r);
				model_del(old);
				model_add(newid);
				retire(old);
				if (succ)
					retire(succ);
				break;
			}
			case S_DEL1: case S_DEL2: {
				int victim, nth = kind == S_DEL2 ? 2 : 1;

				RDL();
				victim = find_nth(key, nth, &it);
				VRT_CHECK((victim != 0) == (model_count_key(key) >= nth), "%s: duplicate walk found node %d, model has %d",
					  what, victim, model_count_key(key));
				r = cds_lfht_del(ht, cds_lfht_iter_get_node(&it));
				if (!victim) {
					RDU();
					VRT_CHECK(r < 0, "%s: del(NULL) returned %d", what, r);
					break;
				}
				VRT_CHECK(r == 0, "%s: del of stored node %d returned %d", what, victim, r);
				VRT_CHECK(cds_lfht_is_node_deleted(&nodes[victim]->n), "%s: deleted node not marked deleted", what);
				VRT_CHECK(cds_lfht_del(ht, &nodes[victim]->n) < 0, "%s: second del of node %d succeeded", what, victim);
				{
					int nid = next_id++;
					struct hnode *nn = mknode(nid, key);

					VRT_CHECK(cds_lfht_replace(ht, &it, hash_of(key), match, &key, &nn->n) < 0,
						  "%s: replace through a stale iterator of deleted node %d succeeded", what, victim);
					free(nn);
				}
				RDU();
				model_del(victim);
				retire(victim);
				break;
			}
			}
		} else if (c < S_NKINDS * nkeys + nrs) {
			unsigned long want = rs_sizes[c - S_NKINDS * nkeys], exp;

			snprintf(what, sizeof(what), "step %d resize(%#lx)", step, want);
			if (want > 64 && max_eff > 4096)
				want = 64;	/* unlimited table: do not really allocate 2^63 buckets */
			WAIT_BEGIN();			/* qsbr: not "inside a read-side section", as the API requires */
			cds_lfht_resize(ht, want);	/* must return: hang = livelock / horizon verdict */
			WAIT_END();
			exp = want < 1 ? 1 : want;
			exp = exp > max_eff ? max_eff : exp;
			while (exp & (exp - 1))
				exp += exp & -exp;	/* round up to a power of two */
			if (exp > max_eff)
				exp = max_eff;
			if (!(cfg_flags & CDS_LFHT_AUTO_RESIZE))
				VRT_CHECK(ht_size_quiet() == exp, "%s: table has %lu buckets afterwards, expected %lu", what,
					  ht_size_quiet(), exp);
		} else {
			int r2;

			snprintf(what, sizeof(what), "step %d destroy", step);
			r2 = cds_lfht_destroy(ht, NULL);
			if (nmodel) {
				VRT_CHECK(r2 < 0, "%s: destroy of a table holding %d nodes returned %d", what, nmodel, r2);
			} else {
				VRT_CHECK(r2 == 0, "%s: destroy of an empty table returned %d", what, r2);
				destroyed = 1;
				vrt_witness(W_SEQ_DESTROYED);
				if (cfg_flags & CDS_LFHT_AUTO_RESIZE)
					WAIT_BEGIN();
					while (!vrt_is_freed(ht))	/* teardown is queued behind pending resizes */
						vrt_yield();
					WAIT_END();
				VRT_CHECK(vrt_is_freed(ht), "%s: table memory not released", what);
				if (cfg_custom)
					VRT_CHECK(vrt_note_get(N_LIVE) == 0, "%s: %lu blocks of the custom allocator leaked", what,
						  vrt_note_get(N_LIVE));
				break;
			}
		}
		{
			int settled = settle();

			seq_verify(what);
			/* nosettle=2: the piled-up lazy resizes are drained at the end of the sequence, so two visits of a state have the
			 * same futures only with the same number of remaining steps */
			if (settled && step + 1 < len &&
			    vrt_state_seen(vrt_param("nosettle", 0) == 2 ? vrt_mix(seq_state_key(), (unsigned long)(len - step)) : seq_state_key(),
					   len - step - 1))
				return;
		}
	}
	if (!destroyed && vrt_param("nosettle", 0) == 2 && (cfg_flags & CDS_LFHT_AUTO_RESIZE)) {
		/* the worker finally runs: whatever target the unserved requests left behind, it must park again (a worker that spins on
		 * an unreachable target runs into the horizon) and leave a consistent table.  Neither "resize_initiated == 0" nor
		 * "size == resize_target" is required here: a launcher that is overtaken by the worker between queueing the work and
		 * setting resize_initiated leaves the flag set with nothing queued (later lazy requests are then dropped) - lazy
		 * resizing is best effort and no listed property says otherwise */
		int i, idle = 0;

		WAIT_BEGIN();
		for (i = 0; i < 400 && idle < 3; i++) {
			vrt_yield();
			if (pthread_mutex_trylock(&ht->resize_mutex) == 0) {	/* the worker resizes with this mutex held */
				pthread_mutex_unlock(&ht->resize_mutex);
				idle++;
			} else
				idle = 0;
		}
		WAIT_END();
		VRT_CHECK(idle >= 3, "the resize worker still holds the resize mutex %d scheduling rounds after the last operation: the lazy "
			  "resize does not terminate (size %lu, resize_target %lu)", i, ht_size_quiet(), ht->resize_target);
		seq_verify("final drain");
	}
}

/* =====================================================================================================
 * Concurrent part (C05, C06, C07, concurrent half of C09)
 * ===================================================================================================== */
enum { OP_ADD = 1, OP_ADDU, OP_ADDR, OP_REPL, OP_DEL, OP_LOOKUP, OP_WALK };
enum { K_ADD = 1, K_ADDU, K_ADDR, K_REPL, K_DEL, K_LOOKUP, K_WALKK, K_WALKALL, K_RESIZE, K_DELN, K_REPLN, K_COUNT };
#define B(kind, arg) (((kind) << 4) | (arg))

static int ninit, unique_mode, reclaim;
static unsigned init_mask;

static int deferred[4][8], ndeferred[4];

static void reclaim_node(int id)
{
	if (!reclaim)
		return;
	if (reclaim == 2) {
		/* like call_rcu: the thread goes on with its next operation, the node is freed after a later grace period */
		int t = vrt_tid() & 3;

		if (ndeferred[t] < 8)
			deferred[t][ndeferred[t]++] = id;
		return;
	}
	SYNC();
	free(nodes[id]);
}

static void reclaim_deferred(void)
{
	int t = vrt_tid() & 3, i;

	if (!ndeferred[t])
		return;
	SYNC();
	for (i = 0; i < ndeferred[t]; i++)
		free(nodes[deferred[t][i]]);
	ndeferred[t] = 0;
}

static void op_walk(int key)	/* key < 0: full traversal */
{
	struct cds_lfht_iter it;
	unsigned long mask = 0;
	int h, n = 0, dupkey = 0;
	unsigned keys_seen = 0;

	RDL();
	h = vrt_h_call(OP_WALK, key, 0);
	if (key >= 0)
		cds_lfht_lookup(ht, hash_of(key), match, &key, &it);
	else
		cds_lfht_first(ht, &it);
	while (cds_lfht_iter_get_node(&it)) {
		int id = id_of(cds_lfht_iter_get_node(&it));

		VRT_CHECK(++n < 24, "traversal does not terminate");
		VRT_CHECK(!(mask & (1UL << id)), "a %s yields node %d twice", key >= 0 ? "duplicate walk" : "traversal", id);
		if (key >= 0)
			VRT_CHECK(node_key[id] == key, "duplicate walk of key %d yields node %d with key %d", key, id, node_key[id]);
		mask |= 1UL << id;
		if (keys_seen & (1u << node_key[id]))
			dupkey = 1;
		keys_seen |= 1u << node_key[id];
		if (key >= 0)
			cds_lfht_next_duplicate(ht, match, &key, &it);
		else
			cds_lfht_next(ht, &it);
	}
	vrt_h_ret2(h, (long)mask, dupkey);
	RDU();
	if (unique_mode)
		VRT_CHECK(!dupkey, "a %s returned two nodes with the same key although the key is only inserted uniquely (nodes %#lx)",
			  key >= 0 ? "duplicate walk" : "full traversal", mask);
}

static void run_op(int tid, int slot, int b)
{
	int kind = b >> 4, arg = b & 15, id = 8 + tid * 6 + slot, key = arg & 3, h, r, old;
	struct cds_lfht_iter it;
	struct cds_lfht_node *ret;

	if (id >= MAXN)
		vrt_internal("program too long");
	switch (kind) {
	case K_ADD:
		mknode(id, key);
		RDL();
		h = vrt_h_call(OP_ADD, id, key);
		cds_lfht_add(ht, hash_of(key), &nodes[id]->n);
		vrt_h_ret(h, 0);
		RDU();
		break;
	case K_ADDU:
		mknode(id, key);
		RDL();
		h = vrt_h_call(OP_ADDU, id, key);
		ret = cds_lfht_add_unique(ht, hash_of(key), match, &key, &nodes[id]->n);
		if (ret != &nodes[id]->n)
			vrt_witness(W_ADDU_LOST);
		vrt_h_ret(h, id_of(ret));
		RDU();
		break;
	case K_ADDR:
		mknode(id, key);
		RDL();
		h = vrt_h_call(OP_ADDR, id, key);
		ret = cds_lfht_add_replace(ht, hash_of(key), match, &key, &nodes[id]->n);
		old = id_of(ret);
		vrt_h_ret(h, old);
		RDU();
		if (old)
			reclaim_node(old);
		break;
	case K_LOOKUP:
		RDL();
		h = vrt_h_call(OP_LOOKUP, key, 0);
		cds_lfht_lookup(ht, hash_of(key), match, &key, &it);
		vrt_h_ret(h, id_of(cds_lfht_iter_get_node(&it)));
		RDU();
		break;
	case K_DEL: case K_REPL:
		if (kind == K_REPL)
			mknode(id, key);
		RDL();
		h = vrt_h_call(OP_LOOKUP, key, 0);
		cds_lfht_lookup(ht, hash_of(key), match, &key, &it);
		old = id_of(cds_lfht_iter_get_node(&it));
		vrt_h_ret(h, old);
		if (!old) {
			RDU();
			break;
		}
		if (kind == K_DEL) {
			h = vrt_h_call(OP_DEL, old, 0);
			r = cds_lfht_del(ht, cds_lfht_iter_get_node(&it));
		} else {
			h = vrt_h_call(OP_REPL, old, id);
			r = cds_lfht_replace(ht, &it, hash_of(key), match, &key, &nodes[id]->n);
		}
		vrt_h_ret(h, r ? -1 : 0);
		RDU();
		if (!r)
			reclaim_node(old);
		else
			vrt_witness(W_REMOVER_LOST);
		break;
	case K_DELN:	/* del of a given pre-inserted node (found through a duplicate walk), whoever else removes it */
		old = arg + 1;
		key = node_key[old];
		RDL();
		cds_lfht_lookup(ht, hash_of(key), match, &key, &it);
		while (cds_lfht_iter_get_node(&it) && cds_lfht_iter_get_node(&it) != &nodes[old]->n)
			cds_lfht_next_duplicate(ht, match, &key, &it);
		if (!cds_lfht_iter_get_node(&it)) {
			RDU();
			break;
		}
		h = vrt_h_call(OP_DEL, old, 0);
		r = cds_lfht_del(ht, &nodes[old]->n);
		vrt_h_ret(h, r ? -1 : 0);
		RDU();
		if (!r)
			reclaim_node(old);
		else
			vrt_witness(W_REMOVER_LOST);
		break;
	case K_REPLN:	/* replace of a given pre-inserted node (found through a duplicate walk) */
		old = arg + 1;
		key = node_key[old];
		mknode(id, key);
		RDL();
		cds_lfht_lookup(ht, hash_of(key), match, &key, &it);
		while (cds_lfht_iter_get_node(&it) && cds_lfht_iter_get_node(&it) != &nodes[old]->n)
			cds_lfht_next_duplicate(ht, match, &key, &it);
		if (!cds_lfht_iter_get_node(&it)) {
			RDU();
			break;
		}
		h = vrt_h_call(OP_REPL, old, id);
		r = cds_lfht_replace(ht, &it, hash_of(key), match, &key, &nodes[id]->n);
		vrt_h_ret(h, r ? -1 : 0);
		RDU();
		if (!r)
			reclaim_node(old);
		break;
	case K_WALKK:
		op_walk(key);
		break;
	case K_WALKALL:
		op_walk(-1);
		break;
	case K_RESIZE:
		WAIT_BEGIN();	/* cds_lfht_resize must not be called from a read-side section: a qsbr thread is offline meanwhile */
		cds_lfht_resize(ht, (unsigned long)arg);
		WAIT_END();
		break;
	case K_COUNT: {
		long ab, aa;
		unsigned long cnt;

		RDL();
		cds_lfht_count_nodes(ht, &ab, &cnt, &aa);
		RDU();
		VRT_CHECK(cnt < MAXN, "count_nodes returned %lu", cnt);
		break;
	}
	default:
		vrt_internal("bad op byte %#x", b);
	}
	check_bounds("a concurrent operation");
}

static long progs[4];
static void run_prog(int tid)
{
	long p = progs[tid];
	int slot;

	for (slot = 0; p & 0xff; p >>= 8, slot++)
		run_op(tid, slot, (int)(p & 0xff));
	reclaim_deferred();
}
static void *prog_thread(void *a) { REG(); run_prog((int)(long)a); UNREG(); return NULL; }

/* ---- sequential specification for the linearizability search ---- */
struct hspec { unsigned present; };
static void hs_init(void *st) { ((struct hspec *)st)->present = init_mask; }
static int hs_with_key(unsigned present, int key)
{
	int i;

	for (i = 1; i < MAXN; i++)
		if ((present & (1u << i)) && node_key[i] == key)
			return i;
	return 0;
}
static int hs_apply(void *st, const struct vrt_hop *o)
{
	struct hspec *s = st;
	unsigned bit;

	switch (o->op) {
	case OP_ADD:
		s->present |= 1u << o->a0;
		return 1;
	case OP_ADDU:
		if (hs_with_key(s->present, (int)o->a1))
			return o->ret != o->a0 && o->ret > 0 && (s->present & (1u << o->ret)) && node_key[o->ret] == o->a1;
		if (o->ret != o->a0)
			return 0;
		s->present |= 1u << o->a0;
		return 1;
	case OP_ADDR:
		if (hs_with_key(s->present, (int)o->a1)) {
			if (!(o->ret > 0 && o->ret != o->a0 && (s->present & (1u << o->ret)) && node_key[o->ret] == o->a1))
				return 0;
			s->present &= ~(1u << o->ret);
		} else if (o->ret != 0)
			return 0;
		s->present |= 1u << o->a0;
		return 1;
	case OP_REPL:
		bit = 1u << o->a0;
		if (o->ret == 0) {
			if (!(s->present & bit))
				return 0;
			s->present = (s->present & ~bit) | (1u << o->a1);
			return 1;
		}
		return !(s->present & bit);
	case OP_DEL:
		bit = 1u << o->a0;
		if (o->ret == 0) {
			if (!(s->present & bit))
				return 0;
			s->present &= ~bit;
			return 1;
		}
		return !(s->present & bit);
	case OP_LOOKUP:
		if (o->ret == 0)
			return !hs_with_key(s->present, (int)o->a0);
		return (s->present & (1u << o->ret)) && node_key[o->ret] == o->a0;
	case OP_WALK:
		return 1;	/* interval operation: checked by walk_checks() */
	}
	return 0;
}
static const struct vrt_lin_spec hspec = { sizeof(struct hspec), hs_init, hs_apply };

/* interval specification of lookups-with-duplicates and traversals */
static void walk_checks(void)
{
	unsigned long ins_call[MAXN], ins_ret[MAXN], rem_call[MAXN], rem_ret[MAXN];
	int inserted[MAXN], removed[MAXN], repl_by[MAXN];
	int i, id, n = vrt_h_count();
	char buf[500];

	memset(inserted, 0, sizeof(inserted));
	memset(removed, 0, sizeof(removed));
	memset(repl_by, 0, sizeof(repl_by));
	for (id = 1; id <= ninit; id++) {
		inserted[id] = 1;
		ins_call[id] = ins_ret[id] = 0;
	}
	for (i = 0; i < n; i++) {
		struct vrt_hop *o = vrt_h_get(i);
		int in = 0, out = 0;

		switch (o->op) {
		case OP_ADD: in = (int)o->a0; break;
		case OP_ADDU: if (o->ret == o->a0) in = (int)o->a0; break;
		case OP_ADDR: in = (int)o->a0; out = (int)o->ret; break;
		case OP_REPL: if (o->ret == 0) { in = (int)o->a1; out = (int)o->a0; } break;
		case OP_DEL: if (o->ret == 0) out = (int)o->a0; break;
		}
		if (in) {
			inserted[in] = 1;
			ins_call[in] = o->call;
			ins_ret[in] = o->rett;
		}
		if (out) {
			removed[out] = 1;
			rem_call[out] = o->call;
			rem_ret[out] = o->rett;
			if (in)
				repl_by[out] = in;
		}
	}
	for (i = 0; i < n; i++) {
		struct vrt_hop *w = vrt_h_get(i);
		int must_nonempty = 0;

		if (w->op != OP_WALK)
			continue;
		for (id = 1; id < MAXN; id++) {
			int reported = (int)((w->ret >> id) & 1), keyok = w->a0 < 0 || node_key[id] == w->a0;

			if (reported) {
				int may = inserted[id] && ins_call[id] < w->rett && (!removed[id] || rem_ret[id] > w->call);

				if (!may) {
					vrt_h_dump(buf, sizeof(buf));
					vrt_fail("walk %d reports node %d which was in the table at no instant of the walk:%s", i, id, buf);
				}
			}
			if (nodes[id] && inserted[id] && keyok && ins_ret[id] < w->call && (!removed[id] || rem_call[id] > w->rett)) {
				if (!reported) {
					vrt_h_dump(buf, sizeof(buf));
					vrt_fail("walk %d missed node %d (key %d) which was in the table during the whole walk:%s", i, id,
						 node_key[id], buf);
				}
			}
			/* key continuously present through a chain of replacements */
			if (w->a0 >= 0 && nodes[id] && inserted[id] && node_key[id] == w->a0 && ins_ret[id] < w->call) {
				int cur = id, hops = 0;

				while (removed[cur] && repl_by[cur] && rem_call[cur] < w->rett && hops++ < MAXN)
					cur = repl_by[cur];
				if (!removed[cur] || rem_call[cur] > w->rett)
					must_nonempty = 1;
			}
		}
		if (must_nonempty && !w->ret) {
			vrt_h_dump(buf, sizeof(buf));
			vrt_fail("walk %d of key %ld found nothing although the key was continuously present (replaced, never removed):%s", i,
				 w->a0, buf);
		}
	}
}

/* alphabets for in-harness enumeration of programs (param enum = alphabet id + 1) */
static const unsigned char ALPHA[][16] = {
	/* 0: update/lookup mix on two keys */
	{ B(K_ADD, 0), B(K_ADD, 1), B(K_ADDU, 0), B(K_ADDR, 0), B(K_REPL, 0), B(K_DEL, 0), B(K_DEL, 1), B(K_LOOKUP, 0), B(K_LOOKUP, 1),
	  B(K_WALKK, 0), B(K_WALKALL, 0), 0 },
	/* 1: unique-key alphabet (C06) */
	{ B(K_ADDU, 0), B(K_ADDU, 1), B(K_ADDR, 0), B(K_REPL, 0), B(K_DEL, 0), B(K_LOOKUP, 0), B(K_WALKK, 0), B(K_WALKALL, 0), 0 },
	/* 2: removers of the pre-inserted node 1 (C07) plus bystanders */
	{ B(K_DELN, 0), B(K_REPLN, 0), B(K_ADDR, 0), B(K_DEL, 0), B(K_ADD, 0), B(K_ADD, 1), B(K_LOOKUP, 0), B(K_WALKALL, 0), 0 },
	/* 3: resize actor */
	{ B(K_RESIZE, 1), B(K_RESIZE, 2), B(K_RESIZE, 4), B(K_RESIZE, 3), 0 },
	/* 4: operations on key 1 (with hmap 1 / 2 its hash is the index of a bucket that a grow creates) */
	{ B(K_ADD, 1), B(K_ADDU, 1), B(K_ADDR, 1), B(K_REPL, 1), B(K_DEL, 1), B(K_LOOKUP, 1), B(K_WALKK, 1), B(K_WALKALL, 0), 0 },
};

static void run_conc(void)
{
	REG();
	pthread_t th[4];
	int nthreads_prog = 0, t, i, alpha = (int)vrt_param("enum", 0);
	long ik = vrt_param("init_keys", 0);
	int nik = (int)vrt_param("ninit", 0);

	unique_mode = (int)vrt_param("unique", 0);
	reclaim = (int)vrt_param("reclaim", 1);
	if (!table_new())
		vrt_internal("conc: invalid table parameters");
	for (i = 0; i < nik; i++) {
		int key = (int)((ik >> (4 * i)) & 3);

		mknode(i + 1, key);
		RDL();
		cds_lfht_add(ht, hash_of(key), &nodes[i + 1]->n);
		RDU();
		init_mask |= 1u << (i + 1);
	}
	ninit = nik;
	if (vrt_param("init_resize", 0))
		{ WAIT_BEGIN(); cds_lfht_resize(ht, (unsigned long)vrt_param("init_resize", 0)); WAIT_END(); }
	progs[0] = vrt_param("prog0", 0);
	progs[1] = vrt_param("prog1", 0);
	progs[2] = vrt_param("prog2", 0);
	progs[3] = vrt_param("prog3", 0);
	if (alpha) {
		/* enumerate the programs of the first 'nenum' threads over an alphabet: nops ops each */
		int nenum = (int)vrt_param("nenum", 2), nops = (int)vrt_param("nops", 1), na = 0, a2 = (int)vrt_param("enum2", alpha);

		for (t = 0; t < nenum; t++) {
			const unsigned char *al = ALPHA[(t == 0 ? alpha : a2) - 1];

			for (na = 0; al[na]; na++)
				;
			progs[t] = 0;
			for (i = 0; i < nops; i++) {
				int c = vrt_choose(na);

				vrt_outcome((unsigned long)c + 1000);
				progs[t] |= (long)al[c] << (8 * i);
			}
		}
		/* symmetric alphabets: keep one representative of each unordered pair */
		if (nenum == 2 && a2 == alpha && progs[0] > progs[1])
			return;
	}
	for (t = 1; t < 4; t++)
		if (progs[t]) {
			vrt_pthread_create_nf(&th[t], NULL, prog_thread, (void *)(long)t);
			nthreads_prog = t;
		}
	run_prog(0);
	for (t = 1; t <= nthreads_prog; t++)
		if (progs[t])
			{ WAIT_BEGIN(); pthread_join(th[t], NULL); WAIT_END(); }
	{
		int expect = 1 + (progs[1] != 0) + (progs[2] != 0) + (progs[3] != 0) + ((cfg_flags & CDS_LFHT_AUTO_RESIZE) ? 1 : 0);

		if (vrt_thread_count() > expect)
			vrt_witness(W_PARTITIONED);
	}
	if ((cfg_flags & CDS_LFHT_AUTO_RESIZE) && vrt_param("settle_end", 1))
		settle();
	/* quiescent: the final content is observed through the same history */
	for (i = 0; i < 4; i++)
		run_op(0, 5, B(K_LOOKUP, i));
	op_walk(-1);
	vrt_lin_assert(&hspec, "hash table");
	vrt_quiet_begin();
	walk_checks();
	vrt_quiet_end();
	{
		/* the final traversal is sequential: it must show exactly the linearized content; the
		 * last WALK entry is that traversal, and the final lookups pin down each key */
		struct vrt_hop *w = vrt_h_get(vrt_h_count() - 1);
		unsigned long cnt;
		long ab, aa;
		int pop = 0;

		for (i = 1; i < MAXN; i++)
			pop += (int)((w->ret >> i) & 1);
		RDL();
		cds_lfht_count_nodes(ht, &ab, &cnt, &aa);
		RDU();
		VRT_CHECK(cnt == (unsigned long)pop, "count_nodes says %lu at quiescence, the traversal shows %d nodes", cnt, pop);
	}
	if (cfg_flags & CDS_LFHT_AUTO_RESIZE) {
		int lazy;

		vrt_quiet_begin();
		lazy = ht->resize_initiated || ht->resize_target != (unsigned long)cfg_init || ht->size != (unsigned long)cfg_init;
		vrt_quiet_end();
		if (lazy)
			vrt_witness(W_LAZY_RESIZED);	/* vacuity guard: a lazy resize was requested in this execution */
	}
	if (vrt_param("final_destroy", 0)) {
		/* empty the table, then destroy it: must succeed, and nothing may touch it afterwards */
		struct cds_lfht_iter it;
		int r;

		RDL();
		for (cds_lfht_first(ht, &it); cds_lfht_iter_get_node(&it); cds_lfht_next(ht, &it))
			VRT_CHECK(cds_lfht_del(ht, cds_lfht_iter_get_node(&it)) == 0, "del during final cleanup failed");
		RDU();
		r = cds_lfht_destroy(ht, NULL);
		VRT_CHECK(r == 0, "destroy of the emptied table returned %d", r);
		if (cfg_flags & CDS_LFHT_AUTO_RESIZE) {
			int i;

			WAIT_BEGIN();
			while (!vrt_is_freed(ht))
				vrt_yield();
			/* let the resize worker run until it is parked again: whatever it still had to do for this table (the tail of a
			 * resize callback, queued work items) must not touch the released table */
			for (i = 0; i < 4; i++)
				vrt_yield();
			WAIT_END();
		}
	}
}

struct vrt_scenario vrt_scenarios[] = {
	{ "seq", run_seq, "all operation sequences of length len against a reference multimap" },
	{ "conc", run_conc, "concurrent programs (prog0..prog3 or enumerated) with linearizability and interval oracles" },
	{ NULL, NULL, NULL }
};
