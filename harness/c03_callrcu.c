/* C03 / C04 - call_rcu(): exactly once, after a grace period; rcu_barrier().
 * Built over the specification flavor (deep) and over real flavors (shallow). */
#include "vrt.h"
#define URCU_API_MAP
#if defined(FLAVOR_SPEC)
#include <urcu/urcu-spec.h>
#elif defined(FLAVOR_MEMB)
#include <urcu/urcu-memb.h>
#elif defined(FLAVOR_MB)
#include <urcu/urcu-mb.h>
#elif defined(FLAVOR_QSBR)
#include <urcu/urcu-qsbr.h>
#elif defined(FLAVOR_BP)
#include <urcu/urcu-bp.h>
#endif

const char *vrt_property_id = "C03";

#ifdef FLAVOR_QSBR
#define RD_LOCK()	do { } while (0)
#define RD_UNLOCK()	rcu_quiescent_state()
#define BLOCKING(stmt)	do { rcu_thread_offline(); stmt; rcu_thread_online(); } while (0)
#else
#define RD_LOCK()	rcu_read_lock()
#define RD_UNLOCK()	rcu_read_unlock()
#define BLOCKING(stmt)	do { stmt; } while (0)
#endif

#define MID() do { if (vrt_param("yield_in_section", 1)) vrt_yield(); } while (0)
#define LD(v) uatomic_load(&(v))
#define ST(v, n) uatomic_store(&(v), n)

/* notebook layout */
#define N_CNT(i)	(10 + (i))	/* invocations of callback i */
#define N_CBT(i)	(20 + (i))	/* time of invocation */
#define N_CALLT(i)	(30 + (i))	/* time call_rcu(i) was called */
#define N_RETT(i)	(40 + (i))	/* time call_rcu(i) returned */
#define N_SECB(t)	(50 + (t))
#define N_SECE(t)	(60 + (t))
#define N_R(k)		(70 + (k))
#define N_BARC		90		/* rcu_barrier call time */
#define N_BARR		91		/* rcu_barrier return time */
#define N_CBEND(i)	(100 + (i))	/* time callback i finished */

static int x, y[6];
struct cbrec { struct rcu_head head; int id; };
static struct cbrec cbs[6];
static int ncb_expected;

static void cb_common(struct rcu_head *h, int reenq);

static void cb(struct rcu_head *h) { cb_common(h, 0); }
static void cb_reenq(struct rcu_head *h) { cb_common(h, 1); }

static void cb_common(struct rcu_head *h, int reenq)
{
	struct cbrec *c = caa_container_of(h, struct cbrec, head);
	int id = c->id;

	VRT_CHECK(c >= &cbs[0] && c < &cbs[6] && c == &cbs[id], "callback invoked with a foreign rcu_head");
	vrt_note_inc(N_CNT(id));
	vrt_note_set(N_CBT(id), vrt_now());
	ST(y[id], 1);
	if (reenq) {
		cbs[id + 1].id = id + 1;
		vrt_note_set(N_CALLT(id + 1), vrt_now() + 1);
		call_rcu(&cbs[id + 1].head, cb);
		vrt_note_set(N_RETT(id + 1), vrt_now());
	}
	vrt_note_set(N_CBEND(id), vrt_now() + 1);
}

static void do_call_rcu(int id, void (*f)(struct rcu_head *))
{
	cbs[id].id = id;
	vrt_note_set(N_CALLT(id), vrt_now() + 1);
	call_rcu(&cbs[id].head, f);
	vrt_note_set(N_RETT(id), vrt_now());
}

static int all_done(void *a)
{
	int i, n = 0;

	(void)a;
	for (i = 0; i < 6; i++)
		n += (int)vrt_note_get(N_CNT(i));
	return n >= ncb_expected;
}

static void wait_cbs(int n)
{
	ncb_expected = n;
	BLOCKING(vrt_await(all_done, NULL));
}

static int nready;
static int ready_pred(void *a) { return nready >= (int)(long)a; }

/* reader: one section reading x then every y[] */
static void *reader(void *a)
{
	int t = vrt_tid(), i, n = (int)(long)a;

	rcu_register_thread();
#ifdef FLAVOR_BP
	rcu_read_lock();
	rcu_read_unlock();
#endif
	RD_LOCK();
	vrt_note_set(N_SECB(t), vrt_now());
	uatomic_inc(&nready);
	vrt_note_set(N_R(0), (unsigned long)LD(x));
	MID();
	for (i = 0; i < n; i++)
		vrt_note_set(N_R(1 + i), (unsigned long)LD(y[i]));
	vrt_note_set(N_SECE(t), vrt_now() + 1);
	RD_UNLOCK();
	rcu_unregister_thread();
	return NULL;
}

static void check_cbs(const char *what, int n)
{
	int i, t;

	for (i = 0; i < n; i++) {
		unsigned long cnt = vrt_note_get(N_CNT(i));

		vrt_outcome(cnt);
		VRT_CHECK(cnt == 1, "%s: callback %d invoked %lu times", what, i, cnt);
		/* litmus: callback effect visible to a section that did not see the pre-call store */
		VRT_CHECK(!(vrt_note_get(N_R(0)) == 0 && vrt_note_get(N_R(1 + i)) == 1),
			  "%s: reader saw callback %d's store (y=1) but not the store made before call_rcu (x=0)", what, i);
		for (t = 1; t < 8; t++) {
			unsigned long sb = vrt_note_get(N_SECB(t)), se = vrt_note_get(N_SECE(t));

			if (!se)
				continue;
			VRT_CHECK(!(sb < vrt_note_get(N_CALLT(i)) && vrt_note_get(N_CBT(i)) < se),
				  "%s: callback %d ran at %lu inside the section [%lu,%lu) of T%d that began before call_rcu (%lu)",
				  what, i, vrt_note_get(N_CBT(i)), sb, se, t, vrt_note_get(N_CALLT(i)));
		}
	}
	vrt_outcome(vrt_note_get(N_R(0)) * 2 + vrt_note_get(N_R(1)));
}

static void main_enter(void)
{
	rcu_register_thread();
}

static void main_leave(void)
{
	rcu_unregister_thread();
}

/* ---- C03 scenarios ------------------------------------------------------------------------------- */
static void run_default(void)
{
	pthread_t r;

	main_enter();
	pthread_create(&r, NULL, reader, (void *)1L);
	BLOCKING(vrt_await(ready_pred, (void *)1L));
	ST(x, 1);
	do_call_rcu(0, cb);
	wait_cbs(1);
	BLOCKING(pthread_join(r, NULL));
	check_cbs("default", 1);
	main_leave();
}

static void *enq_thread(void *a)
{
	int id = (int)(long)a;

	rcu_register_thread();
	do_call_rcu(id, cb);
	rcu_unregister_thread();
	return NULL;
}

static void run_two_enq(void)
{
	pthread_t r, e;

	main_enter();
	pthread_create(&r, NULL, reader, (void *)2L);
	BLOCKING(vrt_await(ready_pred, (void *)1L));
	ST(x, 1);
	pthread_create(&e, NULL, enq_thread, (void *)1L);
	do_call_rcu(0, cb);
	wait_cbs(2);
	BLOCKING(pthread_join(r, NULL));
	BLOCKING(pthread_join(e, NULL));
	check_cbs("two_enq", 2);
	main_leave();
}

static void run_per_thread(void)
{
	pthread_t r;
	struct call_rcu_data *crdp;
	unsigned long flags = vrt_param("rt", 0) ? URCU_CALL_RCU_RT : 0;

	main_enter();
	crdp = create_call_rcu_data(flags, -1);
	VRT_CHECK(crdp != NULL, "create_call_rcu_data failed");
	set_thread_call_rcu_data(crdp);
	VRT_CHECK(get_call_rcu_data() == crdp, "per-thread helper not selected");
	pthread_create(&r, NULL, reader, (void *)2L);
	BLOCKING(vrt_await(ready_pred, (void *)1L));
	ST(x, 1);
	do_call_rcu(0, cb);
	do_call_rcu(1, cb);
	wait_cbs(2);
	BLOCKING(pthread_join(r, NULL));
	set_thread_call_rcu_data(NULL);
	BLOCKING(call_rcu_data_free(crdp));
	check_cbs("per_thread", 2);
	main_leave();
}

/* helper destroyed while a callback is still queued on it: it must be handed over */
static void run_free_pending(void)
{
	pthread_t r;
	struct call_rcu_data *crdp;

	main_enter();
	crdp = create_call_rcu_data(0, -1);
	set_thread_call_rcu_data(crdp);
	pthread_create(&r, NULL, reader, (void *)2L);
	BLOCKING(vrt_await(ready_pred, (void *)1L));
	ST(x, 1);
	do_call_rcu(0, cb);
	vrt_yield();		/* lets the helper pick up the first batch */
	do_call_rcu(1, cb);
	set_thread_call_rcu_data(NULL);
	BLOCKING(call_rcu_data_free(crdp));
	wait_cbs(2);
	BLOCKING(pthread_join(r, NULL));
	check_cbs("free_pending", 2);
	main_leave();
}

static void run_per_cpu(void)
{
	pthread_t r, e;
	int ret;

	main_enter();
	ret = create_all_cpu_call_rcu_data(0);
	VRT_CHECK(ret == 0, "create_all_cpu_call_rcu_data failed: %d", ret);
	vrt_set_cpu((int)vrt_param("cpu", 1));
	pthread_create(&r, NULL, reader, (void *)2L);
	BLOCKING(vrt_await(ready_pred, (void *)1L));
	ST(x, 1);
	pthread_create(&e, NULL, enq_thread, (void *)1L);
	do_call_rcu(0, cb);
	if (vrt_param("migrate", 0))
		vrt_set_cpu(0);
	wait_cbs(2);
	BLOCKING(pthread_join(r, NULL));
	BLOCKING(pthread_join(e, NULL));
	BLOCKING(free_all_cpu_call_rcu_data());
	check_cbs("per_cpu", 2);
	main_leave();
}

static void run_reenqueue(void)
{
	pthread_t r;

	main_enter();
	pthread_create(&r, NULL, reader, (void *)2L);
	BLOCKING(vrt_await(ready_pred, (void *)1L));
	ST(x, 1);
	do_call_rcu(0, cb_reenq);
	wait_cbs(2);
	BLOCKING(pthread_join(r, NULL));
	check_cbs("reenqueue", 2);
	main_leave();
}

/* reclamation: the callback frees the object the reader may still be using */
struct obj { struct rcu_head head; int v; };
static struct obj *gptr;
static void free_cb(struct rcu_head *h)
{
	vrt_note_inc(N_CNT(0));
	free(caa_container_of(h, struct obj, head));
}

static void *ptr_reader(void *a)
{
	struct obj *p;

	(void)a;
	rcu_register_thread();
#ifdef FLAVOR_BP
	rcu_read_lock();
	rcu_read_unlock();
#endif
	RD_LOCK();
	uatomic_inc(&nready);
	p = rcu_dereference(gptr);
	MID();
	if (p) {
		int v = p->v;

		vrt_outcome((unsigned long)v);
	}
	RD_UNLOCK();
	rcu_unregister_thread();
	return NULL;
}

static void run_reclaim(void)
{
	pthread_t r;
	struct obj *o = malloc(sizeof(*o)), *old;

	main_enter();
	o->v = 7;
	rcu_assign_pointer(gptr, o);
	pthread_create(&r, NULL, ptr_reader, NULL);
	BLOCKING(vrt_await(ready_pred, (void *)1L));
	old = rcu_xchg_pointer(&gptr, NULL);
	call_rcu(&old->head, free_cb);
	wait_cbs(1);
	BLOCKING(pthread_join(r, NULL));
	main_leave();
}

/* helper destroyed while it is still invoking a batch whose callback re-enqueues another one (onto the helper's own
 * queue): the destruction must wait for the helper to stop, then hand the chained callback over */
static void run_reenqueue_free(void)
{
	pthread_t r;
	struct call_rcu_data *crdp;

	main_enter();
	crdp = create_call_rcu_data(vrt_param("rt", 0) ? URCU_CALL_RCU_RT : 0, -1);
	set_thread_call_rcu_data(crdp);
	pthread_create(&r, NULL, reader, (void *)2L);
	BLOCKING(vrt_await(ready_pred, (void *)1L));
	ST(x, 1);
	do_call_rcu(0, cb_reenq);
	set_thread_call_rcu_data(NULL);
	BLOCKING(call_rcu_data_free(crdp));
	wait_cbs(2);		/* a lost chained callback never satisfies this: deadlock / livelock verdict */
	BLOCKING(pthread_join(r, NULL));
	check_cbs("reenqueue_free", 2);
	main_leave();
}

/* call_rcu on a per-CPU helper racing with free_all_cpu_call_rcu_data(): the grace period inside the teardown must cover
 * the whole call_rcu (helper lookup AND enqueue) */
static void *enq_cpu_thread(void *a)
{
	rcu_register_thread();
	vrt_set_cpu((int)vrt_param("cpu", 1));
	do_call_rcu((int)(long)a, cb);
	rcu_unregister_thread();
	return NULL;
}

/* variant hold=1: a reader keeps the teardown's grace period open until the enqueuer has *entered* call_rcu(); the enqueuer therefore
 * starts its call while free_all_cpu_call_rcu_data() is already waiting - the helpers must be unpublished by then */
#define N_FREE_STARTED	360
#define N_ENQ_STARTED	361
static int free_started_pred(void *a) { (void)a; return (int)vrt_note_get(N_FREE_STARTED); }
static int enq_started_pred(void *a) { (void)a; return (int)vrt_note_get(N_ENQ_STARTED); }

static void *hold_reader(void *a)
{
	(void)a;
	rcu_register_thread();
	RD_LOCK();
	uatomic_inc(&nready);
	BLOCKING(vrt_await(enq_started_pred, NULL));
	RD_UNLOCK();
	rcu_unregister_thread();
	return NULL;
}

static void *enq_cpu_late_thread(void *a)
{
	rcu_register_thread();
	vrt_set_cpu((int)vrt_param("cpu", 1));
	BLOCKING(vrt_await(free_started_pred, NULL));
	vrt_note_set(N_ENQ_STARTED, 1);
	do_call_rcu((int)(long)a, cb);
	rcu_unregister_thread();
	return NULL;
}

static void run_per_cpu_free_race(void)
{
	pthread_t e;
	int ret;

	main_enter();
	ret = create_all_cpu_call_rcu_data(0);
	VRT_CHECK(ret == 0, "create_all_cpu_call_rcu_data failed: %d", ret);
	if (vrt_param("hold", 0)) {
		pthread_t r;

		pthread_create(&r, NULL, hold_reader, NULL);
		BLOCKING(vrt_await(ready_pred, (void *)1L));
		pthread_create(&e, NULL, enq_cpu_late_thread, (void *)0L);
		vrt_note_set(N_FREE_STARTED, 1);
		BLOCKING(free_all_cpu_call_rcu_data());
		BLOCKING(pthread_join(e, NULL));
		BLOCKING(pthread_join(r, NULL));
		wait_cbs(1);
		check_cbs("per_cpu_free_race/hold", 1);
		main_leave();
		return;
	}
	pthread_create(&e, NULL, enq_cpu_thread, (void *)0L);
	if (vrt_param("yield_first", 1))
		BLOCKING(vrt_yield());	/* the enqueuer runs first; one preemption then suspends it anywhere inside call_rcu() */
	BLOCKING(free_all_cpu_call_rcu_data());
	BLOCKING(pthread_join(e, NULL));
	wait_cbs(1);
	check_cbs("per_cpu_free_race", 1);
	main_leave();
}

/* a callback queued while the helper is already waiting for a grace period (for an earlier callback) must get a grace period of its
 * own: reader 2 enters after the first call_rcu and before the second, and outlives the first reader */
#define N_GOK(k) (364 + (k))
static int gok_pred(void *a) { return (int)vrt_note_get(N_GOK((int)(long)a)); }

static void *hold_reader_k(void *a)
{
	int t = vrt_tid(), k = (int)(long)a;

	rcu_register_thread();
	RD_LOCK();
	vrt_note_set(N_SECB(t), vrt_now());
	uatomic_inc(&nready);
	vrt_note_set(N_R(0), (unsigned long)LD(x));
	BLOCKING(vrt_await(gok_pred, (void *)(long)k));
	vrt_note_set(N_SECE(t), vrt_now() + 1);
	RD_UNLOCK();
	rcu_unregister_thread();
	return NULL;
}

static void run_during_gp(void)
{
	pthread_t r1, r2;

	main_enter();
	pthread_create(&r1, NULL, hold_reader_k, (void *)1L);
	BLOCKING(vrt_await(ready_pred, (void *)1L));
	ST(x, 1);
	do_call_rcu(0, cb);		/* the helper starts a grace period that reader 1 holds open */
	pthread_create(&r2, NULL, hold_reader_k, (void *)2L);
	BLOCKING(vrt_await(ready_pred, (void *)2L));
	do_call_rcu(1, cb);		/* queued while that grace period is (possibly) in flight; reader 2 pre-exists this call */
	vrt_note_set(N_GOK(1), 1);	/* reader 1 leaves: the first grace period may end */
	BLOCKING(vrt_yield());		/* give the helper time to finish it (it may also have batched both callbacks: then it needs */
	BLOCKING(vrt_yield());		/* reader 2 gone as well, so reader 2 must not wait for a callback) */
	BLOCKING(vrt_yield());
	vrt_note_set(N_GOK(2), 1);
	BLOCKING(pthread_join(r1, NULL));
	BLOCKING(pthread_join(r2, NULL));
	wait_cbs(2);
	check_cbs("during_gp", 2);
	main_leave();
}

/* ---- C04 scenarios: rcu_barrier ------------------------------------------------------------------------ */
static int flag;
static int flag_pred(void *a) { (void)a; return flag; }

static void check_barrier(const char *what, int n)
{
	int i;
	unsigned long bc = vrt_note_get(N_BARC), br = vrt_note_get(N_BARR);

	for (i = 0; i < n; i++) {
		unsigned long rt = vrt_note_get(N_RETT(i));

		if (rt && rt < bc) {
			unsigned long end = vrt_note_get(N_CBEND(i));

			vrt_outcome(end != 0);
			VRT_CHECK(end && end <= br + 1,
				  "%s: rcu_barrier() [%lu,%lu] returned although callback %d, queued by a call_rcu that returned at %lu, "
				  "had not finished (finished at %lu)", what, bc, br, i, rt, end);
		}
	}
}

static void do_barrier(void)
{
	vrt_note_set(N_BARC, vrt_now() + 1);
	rcu_barrier();
	vrt_note_set(N_BARR, vrt_now());
}

static void *enq_then_flag(void *a)
{
	int id = (int)(long)a;

	rcu_register_thread();
	do_call_rcu(id, cb);
	if (vrt_param("second_cb", 0))
		do_call_rcu(id + 1, cb);
	ST(flag, 1);
	rcu_unregister_thread();
	return NULL;
}

static void run_barrier(void)
{
	pthread_t e, r;
	struct call_rcu_data *crdp = NULL;
	int with_reader = (int)vrt_param("reader", 1);

	main_enter();
	if (vrt_param("per_thread", 0)) {
		crdp = create_call_rcu_data(0, -1);
		set_thread_call_rcu_data(crdp);
		do_call_rcu(3, cb);		/* on the per-thread helper */
		set_thread_call_rcu_data(NULL);
	}
	if (vrt_param("per_cpu", 0)) {
		/* per-CPU helpers: the barrier has to cover the default helper and every per-CPU one */
		VRT_CHECK(create_all_cpu_call_rcu_data(0) == 0, "create_all_cpu_call_rcu_data failed");
		vrt_set_cpu(1);
		do_call_rcu(4, cb);		/* on CPU 1's helper */
		vrt_set_cpu(0);
	}
	if (with_reader) {
		pthread_create(&r, NULL, reader, (void *)1L);
		BLOCKING(vrt_await(ready_pred, (void *)1L));
	}
	pthread_create(&e, NULL, enq_then_flag, (void *)0L);
	if (vrt_param("await_flag", 1))
		BLOCKING(vrt_await(flag_pred, NULL));
#ifdef FLAVOR_QSBR
	if (vrt_param("barrier_offline", 0)) {
		rcu_thread_offline();
		do_barrier();
		rcu_thread_online();
	} else
#endif
		do_barrier();
	check_barrier("barrier", 5);
	BLOCKING(pthread_join(e, NULL));
	if (with_reader)
		BLOCKING(pthread_join(r, NULL));
	if (crdp)
		BLOCKING(call_rcu_data_free(crdp));
	if (vrt_param("per_cpu", 0))
		BLOCKING(free_all_cpu_call_rcu_data());
	main_leave();
}

static void *barrier_thread(void *a)
{
	(void)a;
	rcu_register_thread();
#ifdef FLAVOR_QSBR
	rcu_thread_offline();
#endif
	rcu_barrier();
#ifdef FLAVOR_QSBR
	rcu_thread_online();
#endif
	rcu_unregister_thread();
	return NULL;
}

/* two concurrent barrier callers + an enqueuer */
static void run_barrier2(void)
{
	pthread_t e, b;

	main_enter();
	do_call_rcu(2, cb);
	pthread_create(&e, NULL, enq_then_flag, (void *)0L);
	pthread_create(&b, NULL, barrier_thread, NULL);
	do_barrier();
	check_barrier("barrier2", 5);
	BLOCKING(pthread_join(e, NULL));
	BLOCKING(pthread_join(b, NULL));
	main_leave();
}

#define N_ENQD 200	/* the churn thread's call_rcu has returned */
static int enqd_pred(void *a) { (void)a; return (int)vrt_note_get(N_ENQD); }

static void *helper_churn(void *a)
{
	struct call_rcu_data *crdp;

	(void)a;
	rcu_register_thread();
	crdp = create_call_rcu_data(0, -1);
	set_thread_call_rcu_data(crdp);
	do_call_rcu(1, cb);
	vrt_note_set(N_ENQD, 1);
	set_thread_call_rcu_data(NULL);
	BLOCKING(call_rcu_data_free(crdp));
	rcu_unregister_thread();
	return NULL;
}

/* barrier concurrent with creation / destruction of a helper */
static void run_barrier_churn(void)
{
	pthread_t c;

	main_enter();
	do_call_rcu(0, cb);
	pthread_create(&c, NULL, helper_churn, NULL);
	if (vrt_param("await_enq", 0))	/* the barrier then has to cover the callback queued on the short-lived helper */
		BLOCKING(vrt_await(enqd_pred, NULL));
	do_barrier();
	check_barrier("barrier_churn", 5);
	BLOCKING(pthread_join(c, NULL));
	wait_cbs(2);
	check_cbs("barrier_churn", 2);
	main_leave();
}

/* rcu_barrier concurrent with the destruction of a helper that still holds queued callbacks (they are
 * handed over to the default helper): the barrier must cover them wherever they currently are */
static void *freer(void *a)
{
	struct call_rcu_data *crdp;
	pthread_t r;

	(void)a;
	rcu_register_thread();
	crdp = create_call_rcu_data(0, -1);
	set_thread_call_rcu_data(crdp);
	pthread_create(&r, NULL, reader, (void *)2L);
	BLOCKING(vrt_await(ready_pred, (void *)1L));
	do_call_rcu(0, cb);
	vrt_yield();		/* lets the helper pick up the first batch (it then waits for the reader) */
	do_call_rcu(1, cb);
	vrt_note_set(N_ENQD, 1);
	set_thread_call_rcu_data(NULL);
	BLOCKING(call_rcu_data_free(crdp));
	BLOCKING(pthread_join(r, NULL));
	rcu_unregister_thread();
	return NULL;
}

static void run_barrier_free_pending(void)
{
	pthread_t f;

	main_enter();
	pthread_create(&f, NULL, freer, NULL);
	BLOCKING(vrt_await(enqd_pred, NULL));
	do_barrier();
	check_barrier("barrier_free_pending", 5);
	BLOCKING(pthread_join(f, NULL));
	wait_cbs(2);
	check_cbs("barrier_free_pending", 2);
	main_leave();
}

struct vrt_scenario vrt_scenarios[] = {
	{ "default", run_default, "call_rcu on the default helper || reader" },
	{ "two_enq", run_two_enq, "two concurrent enqueuers || reader" },
	{ "per_thread", run_per_thread, "per-thread helper (param rt)" },
	{ "free_pending", run_free_pending, "helper freed with callbacks pending" },
	{ "per_cpu", run_per_cpu, "per-CPU helpers (params cpu, migrate)" },
	{ "reenqueue", run_reenqueue, "callback re-enqueues a callback" },
	{ "reenqueue_free", run_reenqueue_free, "helper destroyed while its running batch re-enqueues a callback" },
	{ "during_gp", run_during_gp, "second call_rcu while the helper waits for the first callback's grace period; a reader in between" },
	{ "per_cpu_free_race", run_per_cpu_free_race, "call_rcu on a per-CPU helper || free_all_cpu_call_rcu_data" },
	{ "reclaim", run_reclaim, "callback frees the object a reader may hold" },
	{ "barrier", run_barrier, "rcu_barrier after call_rcu by another thread (params per_thread, reader, await_flag, second_cb)" },
	{ "barrier2", run_barrier2, "two concurrent rcu_barrier callers" },
	{ "barrier_churn", run_barrier_churn, "rcu_barrier || helper creation/destruction" },
	{ "barrier_free_pending", run_barrier_free_pending, "rcu_barrier || destruction of a helper with callbacks still queued" },
	{ NULL, NULL, NULL }
};
