/* C12 - cds_lfq_*_rcu is a linearizable FIFO; dummy nodes are never returned and are reclaimed
 * only after a grace period (specification flavor: adversarially early grace periods). */
#include "vrt.h"
#include <urcu/rculfqueue.h>
#include <urcu/call-rcu.h>

const char *vrt_property_id = "C12";
enum { OP_ENQ = 1, OP_DEQ };

struct item { struct cds_lfq_node_rcu n; struct rcu_head head; int id; };
static struct item *items[8];
static struct cds_lfq_queue_rcu q;

/* ---- a minimal call_rcu: callbacks run on a reclaimer thread after a specification grace period ---- */
#define N_PN	10	/* queued */
#define N_PD	11	/* done */
#define N_STOP	12
#define N_PH(i)	(20 + 2 * (i))
#define N_PF(i)	(21 + 2 * (i))

static void my_call_rcu(struct rcu_head *h, void (*f)(struct rcu_head *))
{
	int i = (int)vrt_note_inc(N_PN);

	if (i >= 40)
		vrt_internal("too many callbacks");
	/* like the real call_rcu(): the rcu_head belongs to the callback machinery from now on and is written at once */
	cds_wfcq_node_init(&h->next);
	h->func = f;
	vrt_note_set(N_PH(i), (unsigned long)h);
	vrt_note_set(N_PF(i), (unsigned long)f);
}

static int work_pred(void *a) { (void)a; return vrt_note_get(N_PN) > vrt_note_get(N_PD) || vrt_note_get(N_STOP); }

static void *reclaimer(void *a)
{
	(void)a;
	for (;;) {
		unsigned long n, i;

		vrt_await(work_pred, NULL);
		n = vrt_note_get(N_PN);
		if (n == vrt_note_get(N_PD)) {
			if (vrt_note_get(N_STOP))
				break;
			continue;
		}
		if (!vrt_param("no_gp", 0))
			vrt_spec_synchronize();
		for (i = vrt_note_get(N_PD); i < n; i++) {
			void (*f)(struct rcu_head *) = (void (*)(struct rcu_head *))vrt_note_get(N_PF((int)i));

			f((struct rcu_head *)vrt_note_get(N_PH((int)i)));
		}
		vrt_note_set(N_PD, n);
	}
	return NULL;
}

static void free_item_cb(struct rcu_head *h) { free(caa_container_of(h, struct item, head)); }

static void q_init(void)
{
	int i;

	for (i = 1; i < 8; i++) {
		items[i] = malloc(sizeof(struct item));
		cds_lfq_node_init_rcu(&items[i]->n);
		items[i]->id = i;
	}
	cds_lfq_init_rcu(&q, my_call_rcu);
}

static void do_enq(int id)
{
	int h;

	vrt_spec_read_lock();
	h = vrt_h_call(OP_ENQ, id, 0);
	cds_lfq_enqueue_rcu(&q, &items[id]->n);
	vrt_h_ret(h, 0);
	vrt_spec_read_unlock();
}

static long do_deq(void)
{
	struct cds_lfq_node_rcu *n;
	long id = 0;
	int h, i;

	vrt_spec_read_lock();
	h = vrt_h_call(OP_DEQ, 0, 0);
	n = cds_lfq_dequeue_rcu(&q);
	if (n) {
		for (i = 1; i < 8; i++)
			if (items[i] && n == &items[i]->n)
				id = i;
		VRT_CHECK(id > 0, "dequeue returned a node that was never enqueued by the user (dummy?)");
	}
	vrt_h_ret(h, id);
	vrt_spec_read_unlock();
	if (n && vrt_param("free_nodes", 1))
		my_call_rcu(&items[id]->head, free_item_cb);	/* freed a grace period later */
	return id;
}

struct qspec { int n; int e[8]; };
static void spec_init(void *st) { memset(st, 0, sizeof(struct qspec)); }
static int spec_apply(void *st, const struct vrt_hop *o)
{
	struct qspec *s = st;
	int i;

	if (o->op == OP_ENQ) {
		s->e[s->n++] = (int)o->a0;
		return 1;
	}
	if (s->n == 0)
		return o->ret == 0;
	if (o->ret != s->e[0])
		return 0;
	for (i = 1; i < s->n; i++)
		s->e[i - 1] = s->e[i];
	s->n--;
	return 1;
}
static const struct vrt_lin_spec qspec = { sizeof(struct qspec), spec_init, spec_apply };

static pthread_t rec;
static void start(void) { q_init(); pthread_create(&rec, NULL, reclaimer, NULL); }

static void finish_checks(const char *what, int enq)
{
	int i, out = 0, r;

	/* quiescent now: while user nodes are still queued (whatever dummy nodes the races left in between) destroy must refuse */
	for (i = 0; i < vrt_h_count(); i++)
		if (vrt_h_get(i)->op == OP_DEQ && vrt_h_get(i)->ret > 0)
			out++;
	if (out < enq)
		VRT_CHECK(cds_lfq_destroy_rcu(&q) == -EPERM, "%s: cds_lfq_destroy_rcu succeeded although %d node(s) are still queued", what, enq - out);
	out = 0;
	while (do_deq() > 0)
		;
	vrt_lin_assert(&qspec, what);
	for (i = 0; i < vrt_h_count(); i++)
		if (vrt_h_get(i)->op == OP_DEQ && vrt_h_get(i)->ret > 0)
			out++;
	VRT_CHECK(out == enq, "%s: %d nodes enqueued, %d dequeued after quiescence", what, enq, out);
	vrt_note_set(N_STOP, 1);
	pthread_join(rec, NULL);
	r = cds_lfq_destroy_rcu(&q);
	VRT_CHECK(r == 0, "%s: destroy of an empty queue failed (%d)", what, r);
}

static void *t_enq12(void *a) { (void)a; do_enq(1); do_enq(2); return NULL; }
static void *t_enq3(void *a) { (void)a; do_enq(3); return NULL; }
static void *t_deq2(void *a) { (void)a; do_deq(); do_deq(); return NULL; }

static void run_eq_dq(void)
{
	pthread_t a, b;

	start();
	pthread_create(&a, NULL, t_enq12, NULL);
	pthread_create(&b, NULL, t_enq3, NULL);
	do_deq();
	do_deq();
	pthread_join(a, NULL);
	pthread_join(b, NULL);
	finish_checks("eq_dq", 3);
}

static void run_dq2(void)
{
	pthread_t a, b;

	start();
	do_enq(4);
	pthread_create(&a, NULL, t_enq3, NULL);
	pthread_create(&b, NULL, t_deq2, NULL);
	do_deq();
	pthread_join(a, NULL);
	pthread_join(b, NULL);
	finish_checks("dq2", 2);
}

/* one enqueuer, one dequeuer, several rounds through the dummy node (empty <-> non-empty) */
static void run_pingpong(void)
{
	pthread_t a;

	start();
	pthread_create(&a, NULL, t_enq12, NULL);
	do_deq();
	do_deq();
	do_deq();
	pthread_join(a, NULL);
	if (vrt_param("destroy_nonempty", 0)) {
		do_enq(5);
		VRT_CHECK(cds_lfq_destroy_rcu(&q) == -EPERM, "destroy of a non-empty queue did not fail");
		finish_checks("pingpong", 3);
	} else
		finish_checks("pingpong", 2);
}

struct vrt_scenario vrt_scenarios[] = {
	{ "eq_dq", run_eq_dq, "2 enqueuers || dequeuer" },
	{ "dq2", run_dq2, "enqueuer || 2 dequeuers" },
	{ "pingpong", run_pingpong, "enqueuer || dequeuer across empty transitions" },
	{ NULL, NULL, NULL }
};
