#!/usr/bin/env python3
"""C20 / E4: instruction-bound x86-TSO model of the uatomic read-modify-write operations.

For every probe (operation x width) compiled from the repository's headers, the emitted instructions are
parsed from objdump, (1) interpreted sequentially in Python and compared with the native function on an
operand grid (this binds the instruction table to the implementation), and (2) translated into a Promela
model of two threads with TSO store buffers, which Spin explores exhaustively:
  * no lost update / token conservation / single cmpxchg winner on one cell,
  * store-buffering litmus around xchg, successful cmpxchg, add_return, sub_return never yields 0/0.
An instruction the table does not know is an internal error (exit 2), never a silent pass."""
import ctypes
import json
import os
import re
import subprocess
import sys

OPS = ["xchg", "cmpxchg", "add_return", "sub_return", "add", "sub", "inc", "dec", "and", "or"]
WIDTHS = [1, 2, 4, 8]
BARRIER_OPS = ["xchg", "cmpxchg", "add_return", "sub_return"]
STORE_OPS = ["store_sc", "store_scf", "set_mb"]      # void stores that must order a later load (litmus only + binding)

REG64 = {}
for base, names in {
    "rax": ("rax", "eax", "ax", "al"), "rbx": ("rbx", "ebx", "bx", "bl"), "rcx": ("rcx", "ecx", "cx", "cl"),
    "rdx": ("rdx", "edx", "dx", "dl"), "rsi": ("rsi", "esi", "si", "sil"), "rdi": ("rdi", "edi", "di", "dil"),
    "r8": ("r8", "r8d", "r8w", "r8b"), "r9": ("r9", "r9d", "r9w", "r9b"), "r10": ("r10", "r10d", "r10w", "r10b"),
    "r11": ("r11", "r11d", "r11w", "r11b"),
}.items():
    for n, w in zip(names, (8, 4, 2, 1)):
        REG64[n] = (base, w)


class Internal(Exception):
    pass


def sh(cmd, **kw):
    return subprocess.run(cmd, stdout=subprocess.PIPE, stderr=subprocess.STDOUT, text=True, **kw)


def parse_objdump(obj):
    out = sh(["objdump", "-d", "--no-show-raw-insn", obj]).stdout
    funcs, cur = {}, None
    for line in out.splitlines():
        m = re.match(r"^[0-9a-f]+ <(\w+)>:$", line)
        if m:
            cur = m.group(1)
            funcs[cur] = []
            continue
        m = re.match(r"^\s*([0-9a-f]+):\s+(.*)$", line)
        if m and cur:
            funcs[cur].append((int(m.group(1), 16), m.group(2).strip()))
    return funcs


def split_ops(s):
    ops, depth, cur = [], 0, ""
    for ch in s:
        if ch == "(":
            depth += 1
        if ch == ")":
            depth -= 1
        if ch == "," and depth == 0:
            ops.append(cur.strip())
            cur = ""
        else:
            cur += ch
    if cur.strip():
        ops.append(cur.strip())
    return ops


def decode(addr, text):
    """-> dict(kind, mnem, lock, ops, target)"""
    t = re.sub(r"\s+<.*>$", "", text)
    parts = t.split(None, 1)
    lock = False
    if parts[0] == "lock":
        lock = True
        parts = parts[1].split(None, 1)
    mnem = parts[0]
    ops = split_ops(parts[1]) if len(parts) > 1 else []
    if mnem.startswith("nop") or mnem in ("data16", "cs", "endbr64") or (mnem == "xchg" and ops == ["%ax", "%ax"]):
        return dict(kind="nop")
    if mnem == "ret":
        return dict(kind="ret")
    if mnem in ("mfence",):
        return dict(kind="fence")
    if mnem in ("lfence", "sfence"):
        return dict(kind="nop")
    if mnem in ("jne", "je", "jmp"):
        return dict(kind="jump", mnem=mnem, target=int(ops[0], 16))
    base = mnem
    for suf in ("b", "w", "l", "q"):
        if mnem.endswith(suf) and mnem[:-1] in ("mov", "add", "sub", "and", "or", "xor", "inc", "dec", "neg", "not", "xadd", "cmpxchg",
                                                "xchg", "cmp", "test"):
            base = mnem[:-1]
    if mnem.startswith("movz") or mnem.startswith("movs") or mnem == "cltq" or mnem == "cdqe":
        base = "movx"
    if base not in ("mov", "movx", "add", "sub", "and", "or", "xor", "inc", "dec", "neg", "not", "xadd", "cmpxchg", "xchg"):
        raise Internal("instruction not in the E4 table: %r" % text)
    return dict(kind="insn", mnem=base, full=mnem, lock=lock, ops=ops)


def is_mem(o):
    return "(" in o


def mem_is_stack(o):
    return "%rsp" in o


def width_of(d):
    for o in d["ops"]:
        if o.startswith("%") and o[1:] in REG64:
            return REG64[o[1:]][1]
    f = d["full"]
    return {"b": 1, "w": 2, "l": 4, "q": 8}.get(f[-1], 8)


# ---------------------------------------------------------------------------------------------------
# sequential interpreter (binding check against the native code)
# ---------------------------------------------------------------------------------------------------
def mask(w):
    return (1 << (8 * w)) - 1


class Seq:
    def __init__(self, cellw):
        self.reg = {}
        self.zf = 0
        self.cell = 0
        self.cellw = cellw

    def rd(self, o, w=None):
        if o.startswith("$"):
            return int(o[1:], 16) & mask(w or 8)
        base, rw = REG64[o[1:]]
        return self.reg.get(base, 0) & mask(rw)

    def wr(self, o, v):
        base, rw = REG64[o[1:]]
        old = self.reg.get(base, 0)
        if rw == 8:
            self.reg[base] = v & mask(8)
        elif rw == 4:
            self.reg[base] = v & mask(4)
        else:
            self.reg[base] = (old & ~mask(rw)) | (v & mask(rw))


def run_seq(insns, cellw, cell, args):
    s = Seq(cellw)
    s.cell = cell & mask(cellw)
    for r, v in zip(("rsi", "rdx"), args):
        s.reg[r] = v & mask(8)
    by_addr = {a: i for i, (a, _) in enumerate(insns)}
    pc, steps = 0, 0
    while pc < len(insns):
        steps += 1
        if steps > 1000:
            raise Internal("sequential interpretation does not terminate")
        d = decode(*insns[pc])
        pc += 1
        if d["kind"] == "ret":
            break
        if d["kind"] in ("nop", "fence"):
            continue
        if d["kind"] == "jump":
            take = d["mnem"] == "jmp" or (d["mnem"] == "jne" and not s.zf) or (d["mnem"] == "je" and s.zf)
            if take:
                pc = by_addr[d["target"]]
            continue
        m, ops = d["mnem"], d["ops"]
        w = width_of(d)
        if any(is_mem(o) and mem_is_stack(o) for o in ops):
            if d["lock"]:
                continue        # lock orq $0,(%rsp): a fence
            raise Internal("stack access in probe: %r" % (insns[pc - 1],))

        def get(o):
            return s.cell & mask(w) if is_mem(o) else s.rd(o, w)

        def put(o, v):
            if is_mem(o):
                s.cell = (s.cell & ~mask(w)) | (v & mask(w))
            else:
                s.wr(o, v)

        if m in ("mov", "movx"):
            src, dst = ops
            v = get(src)
            if m == "movx" and d["full"].startswith("movs"):
                sw = REG64[src[1:]][1] if src.startswith("%") else w
                if v >> (8 * sw - 1):
                    v |= ~mask(sw)
            if dst.startswith("%"):
                s.wr(dst, v & mask(REG64[dst[1:]][1]))
            else:
                put(dst, v)
        elif m in ("add", "sub", "and", "or", "xor"):
            src, dst = ops
            a, b = get(dst), get(src)
            r = {"add": a + b, "sub": a - b, "and": a & b, "or": a | b, "xor": a ^ b}[m] & mask(w)
            put(dst, r)
            s.zf = int(r == 0)
        elif m in ("inc", "dec", "neg", "not"):
            (dst,) = ops
            a = get(dst)
            r = {"inc": a + 1, "dec": a - 1, "neg": -a, "not": ~a}[m] & mask(w)
            put(dst, r)
            if m != "not":
                s.zf = int(r == 0)
        elif m == "xadd":
            src, dst = ops
            a, b = get(dst), get(src)
            put(dst, (a + b) & mask(w))
            put(src, a)
        elif m == "xchg":
            src, dst = ops
            a, b = get(dst), get(src)
            put(dst, b)
            put(src, a)
        elif m == "cmpxchg":
            src, dst = ops
            acc = s.reg.get("rax", 0) & mask(w)
            cur = get(dst)
            if cur == acc:
                put(dst, get(src))
                s.zf = 1
            else:
                s.wr({1: "%al", 2: "%ax", 4: "%eax", 8: "%rax"}[w], cur)
                s.zf = 0
        else:
            raise Internal("unhandled %s" % m)
    return s.reg.get("rax", 0), s.cell


def reference(op, w, cell, args):
    """documented sequential semantics -> (return value or None, new cell)"""
    M = mask(w)
    a = [x & M for x in args]
    c = cell & M
    if op == "xchg":
        return c, a[0]
    if op == "cmpxchg":
        return c, (a[1] if c == a[0] else c)
    if op == "add_return":
        return (c + a[0]) & M, (c + a[0]) & M
    if op == "sub_return":
        return (c - a[0]) & M, (c - a[0]) & M
    if op == "add":
        return None, (c + a[0]) & M
    if op == "sub":
        return None, (c - a[0]) & M
    if op == "inc":
        return None, (c + 1) & M
    if op == "dec":
        return None, (c - 1) & M
    if op == "and":
        return None, c & a[0]
    if op == "or":
        return None, c | a[0]
    if op in STORE_OPS:
        return None, a[0]
    raise Internal(op)


GRID = [0, 1, 2, 3, 0x7f, 0x80, 0xfe, 0xff, 0x100, 0x7fff, 0x8000, 0xffff, 0x10000, 0x7fffffff, 0x80000000, 0xffffffff, 0x100000000,
        0x5555555555555555, 0xaaaaaaaaaaaaaaaa, 0x7fffffffffffffff, 0x8000000000000000, 0xffffffffffffffff]


def validate_binding(funcs, so):
    """sequential interpretation of the parsed instructions == native code == documented semantics"""
    lib = ctypes.CDLL(so)
    n = 0
    for op in OPS + STORE_OPS:
        for w in WIDTHS:
            name = "probe_%s_%d" % (op, w)
            fn = getattr(lib, name)
            fn.restype = ctypes.c_ulong
            nargs = 2 if op == "cmpxchg" else 0 if op in ("inc", "dec") else 1
            ctype = {1: ctypes.c_uint8, 2: ctypes.c_uint16, 4: ctypes.c_uint32, 8: ctypes.c_uint64}[w]
            grid = [g & mask(w) for g in GRID]
            grid = sorted(set(grid))
            for cell in grid:
                for a0 in (grid if nargs >= 1 else [0]):
                    for a1 in ([a0, cell, 1, 0xff & mask(w)] if nargs == 2 else [0]):
                        args = [a0, a1][:nargs]
                        if op == "cmpxchg":
                            args = [a0, a1]
                        box = ctype(cell)
                        ret = fn(ctypes.byref(box), *[ctype(x) for x in args])
                        iret, icell = run_seq(funcs[name], w, cell, args)
                        rret, rcell = reference(op, w, cell, args)
                        n += 1
                        if box.value != icell or box.value != rcell:
                            return n, "%s(cell=%#x, args=%s): memory native %#x, instruction model %#x, documented %#x" % (
                                name, cell, [hex(x) for x in args], box.value, icell, rcell)
                        if rret is not None and ((ret & mask(w)) != rret or (iret & mask(w)) != rret):
                            return n, "%s(cell=%#x, args=%s): returns native %#x, instruction model %#x, documented %#x" % (
                                name, cell, [hex(x) for x in args], ret & mask(w), iret & mask(w), rret)
    return n, None


# ---------------------------------------------------------------------------------------------------
# Promela generation
# ---------------------------------------------------------------------------------------------------
PML_HEAD = r"""
/* generated by e4/c20_model.py - two threads, x86-TSO store buffers of depth 2, byte-wide values */
byte mem[2] = %(init0)d;
typedef SB { byte a[2]; byte v[2]; byte n };
SB sb[2];
byte R[%(nreg)d];      /* register file: thread t uses R[t*%(nr)d + i] */
bit zf[2];
byte retv[2];
byte obs[2];
byte ndone;

inline flush_one(t) {
	mem[sb[t].a[0]] = sb[t].v[0];
	sb[t].a[0] = sb[t].a[1]; sb[t].v[0] = sb[t].v[1];
	sb[t].a[1] = 0; sb[t].v[1] = 0;
	sb[t].n--
}
inline drain(t) {
	do
	:: sb[t].n > 0 -> flush_one(t)
	:: else -> break
	od
}
inline ld(t, ad, dst) {
	atomic {
		if
		:: sb[t].n == 2 && sb[t].a[1] == ad -> dst = sb[t].v[1]
		:: sb[t].n >= 1 && sb[t].a[0] == ad && !(sb[t].n == 2 && sb[t].a[1] == ad) -> dst = sb[t].v[0]
		:: else -> dst = mem[ad]
		fi
	}
}
inline st(t, ad, val) {
	atomic {
		if
		:: sb[t].n == 2 -> flush_one(t)
		:: else -> skip
		fi;
		sb[t].a[sb[t].n] = ad; sb[t].v[sb[t].n] = val; sb[t].n++
	}
}
/* the memory system may commit the oldest buffered store of a thread at any time */
active [2] proctype flusher() {
	do
	:: atomic { sb[_pid].n > 0 -> flush_one(_pid) }
	:: ndone == 2 -> break
	od
}
"""

REGS = ["rax", "rbx", "rcx", "rdx", "rsi", "rdi", "r8", "r9", "r10", "r11"]


def preg(t, o):
    base = REG64[o[1:]][0]
    return "R[%d]" % (t * len(REGS) + REGS.index(base))


def gen_body(insns, t, cell, label):
    """Promela statements for one call of the probe by thread t on memory cell index 'cell'"""
    out = []
    addrs = [a for a, _ in insns]
    for a, text in insns:
        d = decode(a, text)
        lab = "%s_%x" % (label, a)
        out.append("%s:" % lab)
        if d["kind"] == "ret":
            out.append("\tgoto %s_end;" % label)
            continue
        if d["kind"] == "nop":
            out.append("\tskip;")
            continue
        if d["kind"] == "fence":
            out.append("\tatomic { drain(%d) };" % t)
            continue
        if d["kind"] == "jump":
            tgt = "%s_%x" % (label, d["target"])
            if d["target"] not in addrs:
                raise Internal("jump outside probe")
            if d["mnem"] == "jmp":
                out.append("\tgoto %s;" % tgt)
            elif d["mnem"] == "jne":
                out.append("\tif :: zf[%d] == 0 -> goto %s :: else -> skip fi;" % (t, tgt))
            else:
                out.append("\tif :: zf[%d] == 1 -> goto %s :: else -> skip fi;" % (t, tgt))
            continue
        m, ops, lock = d["mnem"], d["ops"], d["lock"]
        memop = [o for o in ops if is_mem(o)]
        if memop and mem_is_stack(memop[0]):
            if not lock:
                raise Internal("stack access in probe")
            out.append("\tatomic { drain(%d) };" % t)       # lock orq $0,(%rsp)
            continue

        def val(o):
            if o.startswith("$"):
                return str(int(o[1:], 16) & 0xff)
            return preg(t, o)

        if not memop:
            # register-only arithmetic
            if m in ("mov", "movx"):
                out.append("\t%s = %s;" % (preg(t, ops[1]), val(ops[0])))
            elif m in ("add", "sub", "and", "or", "xor"):
                sym = {"add": "+", "sub": "-", "and": "&", "or": "|", "xor": "^"}[m]
                out.append("\td_step { %s = (%s %s %s) %% 256; zf[%d] = (%s == 0) };" % (preg(t, ops[1]), preg(t, ops[1]), sym, val(ops[0]), t,
                                                                                         preg(t, ops[1])))
            elif m == "neg":
                out.append("\t%s = (256 - %s) %% 256;" % (preg(t, ops[0]), preg(t, ops[0])))
            elif m == "not":
                out.append("\t%s = 255 - %s;" % (preg(t, ops[0]), preg(t, ops[0])))
            elif m == "inc":
                out.append("\t%s = (%s + 1) %% 256;" % (preg(t, ops[0]), preg(t, ops[0])))
            elif m == "dec":
                out.append("\t%s = (%s + 255) %% 256;" % (preg(t, ops[0]), preg(t, ops[0])))
            else:
                raise Internal("register form of %s not in table" % m)
            continue
        # memory forms
        atomic_insn = lock or m == "xchg"
        C = "mem[%d]" % cell
        if m in ("mov", "movx"):
            if is_mem(ops[1]):
                out.append("\tst(%d, %d, %s);" % (t, cell, val(ops[0])))
            else:
                out.append("\tld(%d, %d, %s);" % (t, cell, preg(t, ops[1])))
            continue
        if atomic_insn:
            pre = "\tatomic { drain(%d); " % t
            if m == "xchg":
                r = preg(t, ops[0])
                out.append(pre + "retv[%d] = %s; %s = %s; %s = retv[%d] };" % (t, C, C, r, r, t))
            elif m == "xadd":
                r = preg(t, ops[0])
                out.append(pre + "retv[%d] = %s; %s = (%s + %s) %% 256; %s = retv[%d] };" % (t, C, C, C, r, r, t))
            elif m == "cmpxchg":
                r, acc = preg(t, ops[0]), "R[%d]" % (t * len(REGS))
                out.append(pre + "if :: %s == %s -> %s = %s; zf[%d] = 1 :: else -> %s = %s; zf[%d] = 0 fi };" % (C, acc, C, r, t, acc, C, t))
            elif m in ("add", "sub", "and", "or", "xor"):
                sym = {"add": "+", "sub": "+ 256 -", "and": "&", "or": "|", "xor": "^"}[m]
                out.append(pre + "%s = (%s %s %s) %% 256 };" % (C, C, sym, val(ops[0])))
            elif m == "inc":
                out.append(pre + "%s = (%s + 1) %% 256 };" % (C, C))
            elif m == "dec":
                out.append(pre + "%s = (%s + 255) %% 256 };" % (C, C))
            elif m == "neg":
                out.append(pre + "%s = (256 - %s) %% 256 };" % (C, C))
            elif m == "not":
                out.append(pre + "%s = 255 - %s };" % (C, C))
            else:
                raise Internal("locked %s not in table" % m)
            continue
        # unlocked read-modify-write on memory: a load, then a store, separately visible
        tmp = "obs[%d]" % t
        if m in ("add", "sub", "and", "or", "xor"):
            sym = {"add": "+", "sub": "+ 256 -", "and": "&", "or": "|", "xor": "^"}[m]
            if is_mem(ops[1]):
                out.append("\tld(%d, %d, %s);" % (t, cell, tmp))
                out.append("\tst(%d, %d, (%s %s %s) %% 256);" % (t, cell, tmp, sym, val(ops[0])))
            else:
                out.append("\tld(%d, %d, %s);" % (t, cell, tmp))
                out.append("\t%s = (%s %s %s) %% 256;" % (preg(t, ops[1]), preg(t, ops[1]), sym, tmp))
        elif m in ("inc", "dec"):
            out.append("\tld(%d, %d, %s);" % (t, cell, tmp))
            out.append("\tst(%d, %d, (%s + %d) %% 256);" % (t, cell, tmp, 1 if m == "inc" else 255))
        elif m == "xadd":
            r = preg(t, ops[0])
            out.append("\tld(%d, %d, %s);" % (t, cell, tmp))
            out.append("\tst(%d, %d, (%s + %s) %% 256);" % (t, cell, tmp, r))
            out.append("\t%s = %s;" % (r, tmp))
        elif m == "cmpxchg":
            r, acc = preg(t, ops[0]), "R[%d]" % (t * len(REGS))
            out.append("\tld(%d, %d, %s);" % (t, cell, tmp))
            out.append("\tif :: %s == %s -> zf[%d] = 1; st(%d, %d, %s) :: else -> %s = %s; zf[%d] = 0 fi;" % (tmp, acc, t, t, cell, r, acc, tmp, t))
        else:
            raise Internal("unlocked memory form of %s not in table" % m)
    out.append("%s_end:" % label)
    out.append("\tskip;")
    return "\n".join(out)


def set_args(t, vals):
    regs = ["rsi", "rdx"]
    return "".join("\tR[%d] = %d;\n" % (t * len(REGS) + REGS.index(r), v) for r, v in zip(regs, vals))


def gen_model(op, insns, test):
    """test: 'atomicity' or 'sb'"""
    init0, args, final = 0, None, None
    rax = lambda t: "R[%d]" % (t * len(REGS))  # noqa
    if test == "sb":
        a = {"xchg": [1], "cmpxchg": [0, 1], "add_return": [1], "sub_return": [255]}.get(op, [1])
        procs = []
        for t in (0, 1):
            body = gen_body(insns, t, t, "p%d" % t)
            procs.append("active proctype T%d() {\n%s%s\n\tld(%d, %d, obs[%d]);\n\tatomic { drain(%d) };\n\tndone++\n}\n" % (
                t, set_args(t, a), body, t, 1 - t, t, t))
        final = "!(obs[0] == 0 && obs[1] == 0)"
        what = "store-buffering litmus: %s on own cell; load of the other cell" % op
    else:
        if op in ("add", "add_return"):
            args, final = [[1], [1]], "mem[0] == 2"
        elif op in ("sub", "sub_return"):
            args, final = [[1], [1]], "mem[0] == 254"
        elif op == "inc":
            args, final = [[], []], "mem[0] == 2"
        elif op == "dec":
            args, final = [[], []], "mem[0] == 254"
        elif op == "or":
            args, final = [[1], [2]], "mem[0] == 3"
        elif op == "and":
            init0, args, final = 3, [[254], [253]], "mem[0] == 0"
        elif op == "xchg":
            args = [[1], [2]]
            final = ("((%s == 0 && %s == 1 && mem[0] == 2) || (%s == 2 && %s == 0 && mem[0] == 1))" % (rax(0), rax(1), rax(0), rax(1)))
        elif op == "cmpxchg":
            args = [[0, 1], [0, 2]]
            final = ("((%s == 0 && %s == 1 && mem[0] == 1) || (%s == 2 && %s == 0 && mem[0] == 2))" % (rax(0), rax(1), rax(0), rax(1)))
        if op in ("add_return",):
            final += " && ((%s == 1 && %s == 2) || (%s == 2 && %s == 1))" % (rax(0), rax(1), rax(0), rax(1))
        if op in ("sub_return",):
            final += " && ((%s == 255 && %s == 254) || (%s == 254 && %s == 255))" % (rax(0), rax(1), rax(0), rax(1))
        procs = []
        for t in (0, 1):
            body = gen_body(insns, t, 0, "p%d" % t)
            procs.append("active proctype T%d() {\n%s%s\n\tatomic { drain(%d) };\n\tndone++\n}\n" % (t, set_args(t, args[t]), body, t))
        what = "two concurrent %s on one cell" % op
    chk = "active proctype check() {\n\tndone == 2 && sb[0].n == 0 && sb[1].n == 0;\n\tassert(%s)\n}\n" % final
    hdr = PML_HEAD % dict(nreg=2 * len(REGS), nr=len(REGS), init0=init0)
    return hdr + "\n".join(procs) + chk, what


def run_spin(pml_text, workdir, name):
    workdir = os.path.join(workdir, name)
    os.makedirs(workdir, exist_ok=True)
    path = os.path.join(workdir, name + ".pml")
    open(path, "w").write(pml_text)
    r = sh(["spin", "-a", name + ".pml"], cwd=workdir)
    if r.returncode or not os.path.exists(os.path.join(workdir, "pan.c")):
        raise Internal("spin -a failed for %s: %s" % (name, r.stdout[-400:]))
    r = sh(["gcc", "-O1", "-w", "-DSAFETY", "-DMEMLIM=1024", "-o", "pan_" + name, "pan.c"], cwd=workdir)
    if r.returncode:
        raise Internal("pan compile failed: %s" % r.stdout[-400:])
    r = sh(["./pan_" + name, "-m100000", "-c1"], cwd=workdir, timeout=120)
    out = r.stdout
    m = re.search(r"errors: (\d+)", out)
    st = re.search(r"(\d+) states, stored", out)
    tr = re.search(r"(\d+) transitions", out)
    if not m or not st:
        raise Internal("cannot parse pan output for %s: %s" % (name, out[-400:]))
    if "max search depth too small" in out:
        raise Internal("pan depth limit hit for %s" % name)
    return int(m.group(1)), int(st.group(1)), int(tr.group(1)) if tr else 0, path


def check_compiler_barrier(funcs, tag):
    """cb_<op>_<w>(p=%rdi, ld=%rsi, st=%rdx): a load from (%rsi) and a store to (%rdx) on each side of the atomic instruction"""
    out, n = [], 0
    for op in BARRIER_OPS:
        for w in WIDTHS:
            name = "cb_%s_%d" % (op, w)
            insns = [t for _, t in funcs[name]]
            at = [i for i, t in enumerate(insns) if "(%rdi)" in t and (t.startswith("lock") or t.split()[0].startswith("xchg"))]
            if not at:
                n += 1
                out.append("%s (%s, %d bytes) emits no locked / xchg instruction on its operand at all, so it is neither atomic nor a barrier: %s"
                           % ("uatomic_" + op, tag, w, "; ".join(t for t in insns if not t.startswith(("nop", "data16", "cs ")))))
                continue
            first, last = at[0], at[-1]
            ld = [i for i, t in enumerate(insns) if re.search(r"\(%rsi\)\s*,", t) and not t.startswith("lea")]
            st = [i for i, t in enumerate(insns) if re.search(r",\s*\(%rdx\)\s*$", t)]
            if not ld or not st:
                raise Internal("cannot locate the plain accesses of %s: %s" % (name, "; ".join(insns)))
            n += 1
            if not (any(i < first for i in ld) and any(i > last for i in ld)):
                out.append("%s (%s, %d bytes) is not a compiler barrier: the plain loads before and after it were merged or moved across it: %s"
                           % ("uatomic_" + op, tag, w, "; ".join(t for t in insns if not t.startswith(("nop", "data16", "cs ")))))
            elif not (any(i < first for i in st) and any(i > last for i in st)):
                out.append("%s (%s, %d bytes) is not a compiler barrier: the plain stores before and after it were merged or moved across it: %s"
                           % ("uatomic_" + op, tag, w, "; ".join(t for t in insns if not t.startswith(("nop", "data16", "cs ")))))
    return n, out


def build_probes(repo, workdir, tag, defs):
    os.makedirs(workdir, exist_ok=True)
    obj = os.path.join(workdir, "probes_%s.o" % tag)
    so = os.path.join(workdir, "probes_%s.so" % tag)
    flags = ["-O2", "-fPIC", "-I%s/include" % repo, "-include", "%s/include/config.h" % repo] + defs
    src = os.path.join(os.path.dirname(os.path.abspath(__file__)), "c20_probes.c")
    r = sh(["gcc"] + flags + ["-c", src, "-o", obj])
    if r.returncode:
        raise Internal("probe compile failed: %s" % r.stdout[-600:])
    r = sh(["gcc", "-shared", "-o", so, obj])
    if r.returncode:
        raise Internal("probe link failed: %s" % r.stdout[-600:])
    return obj, so


def main():
    repo, workdir = sys.argv[1], sys.argv[2]
    res = dict(models=[], violations=[], validated=0, states=0, transitions=0)
    try:
        # x86 asm back-end, compiler-builtin back-end, and the x86 back-end as a pre-C11 client sees it (compat memory-order path)
        for tag, defs in (("x86", []), ("builtins", ["-DCONFIG_RCU_USE_ATOMIC_BUILTINS"]), ("x86-gnu99", ["-std=gnu99"])):
            obj, so = build_probes(repo, workdir, tag, defs)
            funcs = parse_objdump(obj)
            ncb, cbv = check_compiler_barrier(funcs, tag)
            res["compiler_barrier_probes"] = res.get("compiler_barrier_probes", 0) + ncb
            for m in cbv:
                res["violations"].append(dict(kind="compiler-barrier", impl=tag, message=m, replay=""))
            n, err = validate_binding(funcs, so)
            res["validated"] += n
            if err:
                res["violations"].append(dict(kind="semantics", impl=tag, message=err, replay=""))
                continue
            work = []
            for op in OPS + STORE_OPS:
                for w in WIDTHS:
                    name = "probe_%s_%d" % (op, w)
                    tests = ["sb"] if op in STORE_OPS else ["atomicity"] + (["sb"] if op in BARRIER_OPS else [])
                    for test in tests:
                        pml, what = gen_model(op, funcs[name], test)
                        work.append((op, w, name, test, pml, what, "%s_%s_%d_%s" % (tag.replace("-", "_"), op, w, test)))
            import concurrent.futures as cf
            with cf.ThreadPoolExecutor(int(os.environ.get("VERIF_CORES", "16"))) as ex:
                outs = list(ex.map(lambda x: run_spin(x[4], workdir, x[6]), work))
            for (op, w, name, test, pml, what, mname), (errors, st, tr, path) in zip(work, outs):
                    if True:
                        pass
                        res["states"] += st
                        res["transitions"] += tr
                        res["models"].append(dict(model=mname, what=what, insns=[t for _, t in funcs[name] if not t.startswith(("nop", "data16", "cs "))],
                                                  states=st, transitions=tr, errors=errors))
                        if errors:
                            res["violations"].append(dict(kind=test, impl=tag, replay=path,
                                                          message="%s (%s, %d bytes): Spin found an execution violating %s; instructions: %s" % (
                                                              what, tag, w, "no-lost-update / conservation" if test == "atomicity" else
                                                              "full-barrier (0/0 observed)", "; ".join(t for _, t in funcs[name] if not t.startswith(("nop", "data16", "cs "))))))
    except Internal as e:
        res["internal"] = str(e)
    json.dump(res, sys.stdout, indent=1)


if __name__ == "__main__":
    main()
