/* C18 / E4: readers that poll an RCU list inside ONE read-side critical section, with no other barrier in the loop.
 * "Traversal loads every forward pointer with rcu_dereference" means the compiler may not hoist or merge those loads:
 * every loop of the emitted code must contain a memory load.  Compiled at -O2 from the repository's headers and checked
 * structurally by e4/c18_loops.py. */
#include <urcu/rculist.h>
#include <urcu/rcuhlist.h>

struct item { struct cds_list_head l; struct cds_hlist_node h; int key; };

__attribute__((noinline)) int poll_list_entry(struct cds_list_head *head, int key)
{
	struct item *it;

	for (;;)
		cds_list_for_each_entry_rcu(it, head, l)
			if (it->key == key)
				return 1;
}

__attribute__((noinline)) int poll_list(struct cds_list_head *head, int key)
{
	struct cds_list_head *pos;

	for (;;)
		cds_list_for_each_rcu(pos, head)
			if (cds_list_entry(pos, struct item, l)->key == key)
				return 1;
}

__attribute__((noinline)) int poll_hlist(struct cds_hlist_head *head, int key)
{
	struct cds_hlist_node *pos;

	for (;;)
		cds_hlist_for_each_rcu(pos, head)
			if (cds_hlist_entry(pos, struct item, h)->key == key)
				return 1;
}

__attribute__((noinline)) int poll_hlist_entry(struct cds_hlist_head *head, int key)
{
	struct cds_hlist_node *pos;
	struct item *it;

	for (;;)
		cds_hlist_for_each_entry_rcu(it, pos, head, h)
			if (it->key == key)
				return 1;
}

__attribute__((noinline)) int poll_hlist_entry_2(struct cds_hlist_head *head, int key)
{
	struct item *it;

	for (;;)
		cds_hlist_for_each_entry_rcu_2(it, head, h)
			if (it->key == key)
				return 1;
}
