/* C18 / E4: readers that poll an RCU list inside ONE read-side critical section, with no other barrier in the loop.
 * "Traversal loads every forward pointer with rcu_dereference" means the compiler may not hoist or merge those loads:
 * every loop of the emitted code must contain a memory load.  Compiled at -O2 from the repository's headers and checked
 * structurally by e4/c18_loops.py. */
#include <urcu/rculist.h>
#include <urcu/rcuhlist.h>

struct item { struct cds_list_head l; struct cds_hlist_node h; int key; };

__attribute__((noinline)) int poll_list_entry(struct cds_list_head *head, int key)
{
	struct item *it;

	for (;;)
		cds_list_for_each_entry_rcu(it, head, l)
			if (it->key == key)
				return 1;
}

__attribute__((noinline)) int poll_list(struct cds_list_head *head, int key)
{
	struct cds_list_head *pos;

	for (;;)
		cds_list_for_each_rcu(pos, head)
			if (cds_list_entry(pos, struct item, l)->key == key)
				return 1;
}

__attribute__((noinline)) int poll_hlist(struct cds_hlist_head *head, int key)
{
	struct cds_hlist_node *pos;

	for (;;)
		cds_hlist_for_each_rcu(pos, head)
			if (cds_hlist_entry(pos, struct item, h)->key == key)
				return 1;
}

__attribute__((noinline)) int poll_hlist_entry(struct cds_hlist_head *head, int key)
{
	struct cds_hlist_node *pos;
	struct item *it;

	for (;;)
		cds_hlist_for_each_entry_rcu(it, pos, head, h)
			if (it->key == key)
				return 1;
}

__attribute__((noinline)) int poll_hlist_entry_2(struct cds_hlist_head *head, int key)
{
	struct item *it;

	for (;;)
		cds_hlist_for_each_entry_rcu_2(it, head, h)
			if (it->key == key)
				return 1;
}

/* publishers: a node is initialised, published, and modified again.  rcu_assign_pointer (inside the list primitives) is a release: the
 * compiler may not treat the initialising store as dead across the publication, nor move it below.  Checked structurally: both stores
 * are emitted, in this order (e4/c18_loops.py). */
struct pitem { struct cds_list_head l; struct cds_hlist_node h; int val; };

__attribute__((noinline)) void pub_list_add(struct pitem *it, struct cds_list_head *head)
{ it->val = 0x11; cds_list_add_rcu(&it->l, head); it->val = 0x22; }
__attribute__((noinline)) void pub_list_add_tail(struct pitem *it, struct cds_list_head *head)
{ it->val = 0x11; cds_list_add_tail_rcu(&it->l, head); it->val = 0x22; }
__attribute__((noinline)) void pub_list_replace(struct pitem *it, struct cds_list_head *old)
{ it->val = 0x11; cds_list_replace_rcu(old, &it->l); it->val = 0x22; }
__attribute__((noinline)) void pub_hlist_add_head(struct pitem *it, struct cds_hlist_head *head)
{ it->val = 0x11; cds_hlist_add_head_rcu(&it->h, head); it->val = 0x22; }
__attribute__((noinline)) void pub_assign_pointer(struct pitem *it, struct pitem **slot)
{ it->val = 0x11; rcu_assign_pointer(*slot, it); it->val = 0x22; }
__attribute__((noinline)) void pub_set_pointer(struct pitem *it, struct pitem **slot)
{ it->val = 0x11; rcu_set_pointer(slot, it); it->val = 0x22; }
