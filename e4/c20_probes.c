/* C20 / E4: one non-inlined probe per uatomic read-modify-write operation and width, compiled from the
 * repository's own headers; the emitted instructions are disassembled and turned into a two-thread
 * x86-TSO Promela model by e4/c20_model.py. */
#include <stdint.h>
#include <urcu/uatomic.h>

#define PROBES(W, T)										\
__attribute__((noinline)) unsigned long probe_xchg_##W(T *p, T v) { return (unsigned long)uatomic_xchg(p, v); }		\
__attribute__((noinline)) unsigned long probe_cmpxchg_##W(T *p, T o, T n) { return (unsigned long)uatomic_cmpxchg(p, o, n); }	\
__attribute__((noinline)) unsigned long probe_add_return_##W(T *p, T v) { return (unsigned long)uatomic_add_return(p, v); }	\
__attribute__((noinline)) unsigned long probe_sub_return_##W(T *p, T v) { return (unsigned long)uatomic_sub_return(p, v); }	\
__attribute__((noinline)) void probe_add_##W(T *p, T v) { uatomic_add(p, v); }			\
__attribute__((noinline)) void probe_sub_##W(T *p, T v) { uatomic_sub(p, v); }			\
__attribute__((noinline)) void probe_inc_##W(T *p) { uatomic_inc(p); }				\
__attribute__((noinline)) void probe_dec_##W(T *p) { uatomic_dec(p); }				\
__attribute__((noinline)) void probe_and_##W(T *p, T v) { uatomic_and(p, v); }			\
__attribute__((noinline)) void probe_or_##W(T *p, T v) { uatomic_or(p, v); }

PROBES(1, uint8_t)
PROBES(2, uint16_t)
PROBES(4, uint32_t)
PROBES(8, uint64_t)

/* compiler-barrier probes: xchg, cmpxchg, add_return and sub_return are full barriers, also for the compiler: a plain
 * load before and after the operation must both be emitted, and so must a plain store before and after it */
#define CBPROBES(W, T)											\
__attribute__((noinline)) long cb_xchg_##W(T *p, long *ld, long *st)					\
{ long a = *ld; *st = 1; (void)uatomic_xchg(p, (T)1); *st = 2; return a + *ld; }			\
__attribute__((noinline)) long cb_cmpxchg_##W(T *p, long *ld, long *st)					\
{ long a = *ld; *st = 1; (void)uatomic_cmpxchg(p, (T)0, (T)1); *st = 2; return a + *ld; }		\
__attribute__((noinline)) long cb_add_return_##W(T *p, long *ld, long *st)				\
{ long a = *ld; *st = 1; (void)uatomic_add_return(p, (T)1); *st = 2; return a + *ld; }		\
__attribute__((noinline)) long cb_sub_return_##W(T *p, long *ld, long *st)				\
{ long a = *ld; *st = 1; (void)uatomic_sub_return(p, (T)1); *st = 2; return a + *ld; }

CBPROBES(1, uint8_t)
CBPROBES(2, uint16_t)
CBPROBES(4, uint32_t)
CBPROBES(8, uint64_t)

/* stores with an explicit memory order (the library's own read-side fast paths use them: urcu-mb / urcu-qsbr reader counters):
 * a CMM_SEQ_CST or CMM_SEQ_CST_FENCE store followed by a load of another location must not be reordered (store-buffering litmus);
 * the pre-C11 compatibility path of these macros is reached by compiling with -std=gnu99 */
#define STPROBES(W, T)										\
__attribute__((noinline)) void probe_store_sc_##W(T *p, T v) { uatomic_store(p, v, CMM_SEQ_CST); }		\
__attribute__((noinline)) void probe_store_scf_##W(T *p, T v) { uatomic_store(p, v, CMM_SEQ_CST_FENCE); }	\
__attribute__((noinline)) void probe_set_mb_##W(T *p, T v) { uatomic_set(p, v); cmm_smp_mb(); }

STPROBES(1, uint8_t)
STPROBES(2, uint16_t)
STPROBES(4, uint32_t)
STPROBES(8, uint64_t)
