/* C20 / E2: exhaustive sequential check of every uatomic operation against its documented semantics,
 * for every operand width, signedness and alignment inside a guarded 16-byte window.  8-bit types: ALL
 * operand pairs; wider types: full product of a boundary alphabet.  Native program (no scheduler is
 * needed: one thread), built once with the default (x86 asm) and once with the compiler-builtin back-end.
 * Output: one line "cases=<n> mismatches=<m>", first mismatches on stderr. */
#include <stdint.h>
#include <stdio.h>
#include <string.h>
#include <limits.h>
#include <urcu/uatomic.h>

static unsigned long cases, mismatches;
static unsigned char buf[48] __attribute__((aligned(16))), img[48];

static const long long ALPHA[] = {
	0, 1, -1, 2, -2, 0x7f, 0x80, 0xff, 0x100, 0x7fff, 0x8000, 0xffff, 0x10000, 0x7fffffffLL, 0x80000000LL, 0xffffffffLL,
	0x100000000LL, 0x5555555555555555LL, (long long)0xaaaaaaaaaaaaaaaaULL, LLONG_MAX, LLONG_MIN, -128, -32768, -2147483648LL
};
#define NALPHA ((int)(sizeof(ALPHA) / sizeof(ALPHA[0])))

static void fill(void)
{
	int i;

	for (i = 0; i < 48; i++)
		buf[i] = img[i] = (unsigned char)(0xa5 ^ (i * 29));
}

static void report(const char *type, const char *op, int off, long long old, long long a, long long b, const char *what)
{
	mismatches++;
	if (mismatches <= 8)
		fprintf(stderr, "MISMATCH %s uatomic_%s at offset %d old=%#llx args=(%#llx,%#llx): %s\n", type, op, off, old, a, b, what);
}

#define CHECK_IMG(T, NAME, OP, off, old, a, b, expect_new)						\
	do {												\
		T _e = (T)(expect_new);									\
		memcpy(img + 16 + (off), &_e, sizeof(T));						\
		if (memcmp(buf, img, sizeof(buf)))							\
			report(NAME, OP, off, (long long)(old), (long long)(a), (long long)(b), "memory image differs (value or neighbouring bytes)"); \
		cases++;										\
	} while (0)

#define DEFTEST(T, NAME)										\
static void one_##NAME(int off, T old, long long va, long long vb)					\
{													\
	T *p = (T *)(buf + 16 + off), r;								\
	T a = (T)va, b = (T)vb;										\
													\
	/* set / read */										\
	fill(); uatomic_set(p, a); CHECK_IMG(T, #NAME, "set", off, old, va, vb, a);			\
	r = uatomic_read(p); if (r != a) report(#NAME, "read", off, old, va, vb, "wrong value read");	\
	/* xchg */											\
	fill(); memcpy(p, &old, sizeof(T)); memcpy(img + 16 + off, &old, sizeof(T));			\
	r = uatomic_xchg(p, a); if (r != old) report(#NAME, "xchg", off, old, va, vb, "wrong return value"); \
	CHECK_IMG(T, #NAME, "xchg", off, old, va, vb, a);						\
	/* cmpxchg(expected = a, new = b) and the always-successful cmpxchg(old, b) */			\
	fill(); memcpy(p, &old, sizeof(T));								\
	r = uatomic_cmpxchg(p, a, b); if (r != old) report(#NAME, "cmpxchg", off, old, va, vb, "wrong return value"); \
	CHECK_IMG(T, #NAME, "cmpxchg", off, old, va, vb, old == a ? b : old);				\
	fill(); memcpy(p, &old, sizeof(T));								\
	r = uatomic_cmpxchg(p, old, b); if (r != old) report(#NAME, "cmpxchg(hit)", off, old, va, vb, "wrong return value"); \
	CHECK_IMG(T, #NAME, "cmpxchg(hit)", off, old, va, vb, b);					\
	/* add_return / sub_return */									\
	fill(); memcpy(p, &old, sizeof(T));								\
	r = uatomic_add_return(p, a); if (r != (T)(old + a)) report(#NAME, "add_return", off, old, va, vb, "wrong return value"); \
	CHECK_IMG(T, #NAME, "add_return", off, old, va, vb, (T)(old + a));				\
	fill(); memcpy(p, &old, sizeof(T));								\
	r = uatomic_sub_return(p, a); if (r != (T)(old - a)) report(#NAME, "sub_return", off, old, va, vb, "wrong return value"); \
	CHECK_IMG(T, #NAME, "sub_return", off, old, va, vb, (T)(old - a));				\
	/* add / sub / inc / dec / and / or */								\
	fill(); memcpy(p, &old, sizeof(T)); uatomic_add(p, a); CHECK_IMG(T, #NAME, "add", off, old, va, vb, (T)(old + a)); \
	fill(); memcpy(p, &old, sizeof(T)); uatomic_sub(p, a); CHECK_IMG(T, #NAME, "sub", off, old, va, vb, (T)(old - a)); \
	fill(); memcpy(p, &old, sizeof(T)); uatomic_inc(p); CHECK_IMG(T, #NAME, "inc", off, old, va, vb, (T)(old + 1)); \
	fill(); memcpy(p, &old, sizeof(T)); uatomic_dec(p); CHECK_IMG(T, #NAME, "dec", off, old, va, vb, (T)(old - 1)); \
	fill(); memcpy(p, &old, sizeof(T)); uatomic_and(p, a); CHECK_IMG(T, #NAME, "and", off, old, va, vb, (T)(old & a)); \
	fill(); memcpy(p, &old, sizeof(T)); uatomic_or(p, a); CHECK_IMG(T, #NAME, "or", off, old, va, vb, (T)(old | a)); \
}													\
static void test_##NAME(int full8)									\
{													\
	int off, i, j, k;										\
													\
	for (off = 0; off < 16; off += (int)sizeof(T)) {						\
		if (sizeof(T) == 1 && full8) {								\
			for (i = 0; i < 256; i++)							\
				for (j = 0; j < 256; j++)						\
					one_##NAME(off, (T)i, (long long)(T)j, (long long)(T)(i ^ j ^ 0x5a)); \
		}											\
		for (i = 0; i < NALPHA; i++)								\
			for (j = 0; j < NALPHA; j++)							\
				for (k = 0; k < NALPHA; k += (sizeof(T) == 1 ? 1 : 5))			\
					one_##NAME(off, (T)ALPHA[i], ALPHA[j], ALPHA[k]);		\
	}												\
}

DEFTEST(uint8_t, u8)
DEFTEST(int8_t, s8)
DEFTEST(uint16_t, u16)
DEFTEST(int16_t, s16)
DEFTEST(uint32_t, u32)
DEFTEST(int32_t, s32)
DEFTEST(uint64_t, u64)
DEFTEST(int64_t, s64)
typedef unsigned long ulong_t;
DEFTEST(ulong_t, ulong)
typedef void *ptr_t;

/* operands whose type differs from the cell's type (narrower / wider, signed / unsigned): the value is
 * converted to the cell's type by the usual C rules, then the operation is applied at the cell's width */
#define DEFMIX(T, TN, U, UN)										\
static void mix_##TN##_##UN(void)									\
{													\
	int i, j;											\
													\
	for (i = 0; i < NALPHA; i++)									\
		for (j = 0; j < NALPHA; j++) {								\
			T old = (T)ALPHA[i], *p = (T *)(buf + 16), r;					\
			U u = (U)ALPHA[j];								\
			long long lu = (long long)u;							\
													\
			fill(); memcpy(p, &old, sizeof(T));						\
			r = uatomic_add_return(p, u); if (r != (T)(old + (T)u)) report(#TN "<-" #UN, "add_return", 0, old, lu, 0, "wrong return value"); \
			CHECK_IMG(T, #TN "<-" #UN, "add_return", 0, old, lu, 0, (T)(old + (T)u));	\
			fill(); memcpy(p, &old, sizeof(T));						\
			r = uatomic_sub_return(p, u); if (r != (T)(old - (T)u)) report(#TN "<-" #UN, "sub_return", 0, old, lu, 0, "wrong return value"); \
			CHECK_IMG(T, #TN "<-" #UN, "sub_return", 0, old, lu, 0, (T)(old - (T)u));	\
			fill(); memcpy(p, &old, sizeof(T)); uatomic_add(p, u); CHECK_IMG(T, #TN "<-" #UN, "add", 0, old, lu, 0, (T)(old + (T)u)); \
			fill(); memcpy(p, &old, sizeof(T)); uatomic_sub(p, u); CHECK_IMG(T, #TN "<-" #UN, "sub", 0, old, lu, 0, (T)(old - (T)u)); \
			fill(); memcpy(p, &old, sizeof(T)); uatomic_and(p, u); CHECK_IMG(T, #TN "<-" #UN, "and", 0, old, lu, 0, (T)(old & (T)u)); \
			fill(); memcpy(p, &old, sizeof(T)); uatomic_or(p, u); CHECK_IMG(T, #TN "<-" #UN, "or", 0, old, lu, 0, (T)(old | (T)u)); \
			fill(); memcpy(p, &old, sizeof(T)); r = uatomic_xchg(p, u);			\
			if (r != old) report(#TN "<-" #UN, "xchg", 0, old, lu, 0, "wrong return value");	\
			CHECK_IMG(T, #TN "<-" #UN, "xchg", 0, old, lu, 0, (T)u);			\
			fill(); memcpy(p, &old, sizeof(T)); r = uatomic_cmpxchg(p, old, u);		\
			if (r != old) report(#TN "<-" #UN, "cmpxchg", 0, old, lu, 0, "wrong return value");	\
			CHECK_IMG(T, #TN "<-" #UN, "cmpxchg", 0, old, lu, 0, (T)u);			\
			fill(); uatomic_set(p, u); CHECK_IMG(T, #TN "<-" #UN, "set", 0, old, lu, 0, (T)u);	\
		}											\
}
#define MIXROW(T, TN)											\
	DEFMIX(T, TN, uint8_t, u8) DEFMIX(T, TN, int8_t, s8) DEFMIX(T, TN, uint16_t, u16) DEFMIX(T, TN, int16_t, s16)	\
	DEFMIX(T, TN, unsigned int, uint) DEFMIX(T, TN, int, int) DEFMIX(T, TN, unsigned long, ul) DEFMIX(T, TN, long, l)	\
	static void mixrow_##TN(void) { mix_##TN##_u8(); mix_##TN##_s8(); mix_##TN##_u16(); mix_##TN##_s16();		\
		mix_##TN##_uint(); mix_##TN##_int(); mix_##TN##_ul(); mix_##TN##_l(); }
MIXROW(uint8_t, u8)
MIXROW(int16_t, s16)
MIXROW(uint32_t, u32)
MIXROW(int32_t, s32)
MIXROW(uint64_t, u64)
MIXROW(int64_t, s64)
MIXROW(ulong_t, ulong)

int main(int argc, char **argv)
{
	int full8 = argc > 1 && argv[1][0] == 'f';

	test_u8(1);
	test_s8(full8);
	test_u16(0); test_s16(0); test_u32(0); test_s32(0); test_u64(0); test_s64(0); test_ulong(0);
	mixrow_u8(); mixrow_s16(); mixrow_u32(); mixrow_s32(); mixrow_u64(); mixrow_s64(); mixrow_ulong();
	{
		/* pointer-typed cells: xchg / cmpxchg / set / read */
		void *cell, *a = (void *)0x1234, *b = (void *)-16L, *r;

		uatomic_set(&cell, a);
		r = uatomic_xchg(&cell, b);
		if (r != a || uatomic_read(&cell) != b) report("ptr", "xchg", 0, 0, 0, 0, "wrong pointer exchange");
		r = uatomic_cmpxchg(&cell, a, a);
		if (r != b || cell != b) report("ptr", "cmpxchg", 0, 0, 0, 0, "failed cmpxchg modified the cell");
		r = uatomic_cmpxchg(&cell, b, a);
		if (r != b || cell != a) report("ptr", "cmpxchg", 0, 0, 0, 0, "successful cmpxchg");
		cases += 3;
	}
	printf("cases=%lu mismatches=%lu\n", cases, mismatches);
	return mismatches ? 1 : 0;
}
