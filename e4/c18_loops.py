#!/usr/bin/env python3
"""C18 / E4-lite: structural exploration of the control-flow graph of polling readers compiled at -O2 from the
repository's list headers: every cycle of every probe must contain a memory load (a cycle without one means the
compiler hoisted the forward-pointer load out of the polling loop, i.e. the traversal macro did not use
rcu_dereference / a volatile access).  Prints JSON: {functions, cycles, violations:[...], internal}."""
import json
import os
import re
import subprocess
import sys


def sh(cmd):
    return subprocess.run(cmd, stdout=subprocess.PIPE, stderr=subprocess.STDOUT, text=True)


def main():
    repo, workdir = sys.argv[1], sys.argv[2]
    os.makedirs(workdir, exist_ok=True)
    src = os.path.join(os.path.dirname(os.path.abspath(__file__)), "c18_probes.c")
    res = dict(functions=0, cycles=0, violations=[], internal="")
    # client code as built against the exported symbols and as built with the static inline implementation (_LGPL_SOURCE)
    for opt, lgpl in (("-O2", False), ("-O3", False), ("-O2", True), ("-O3", True)):
        obj = os.path.join(workdir, "c18_probes%s%s.o" % (opt, "_lgpl" if lgpl else ""))
        r = sh(["gcc", opt, "-w"] + (["-D_LGPL_SOURCE"] if lgpl else []) + ["-I%s/include" % repo, "-include", "%s/include/config.h" % repo,
                                                                             "-c", src, "-o", obj])
        opt = opt + (" -D_LGPL_SOURCE" if lgpl else "")
        if r.returncode:
            res["internal"] = "probe compile failed: " + r.stdout[-400:]
            break
        out = sh(["objdump", "-d", "--no-show-raw-insn", obj]).stdout
        funcs, cur = {}, None
        for line in out.splitlines():
            m = re.match(r"^[0-9a-f]+ <(\w+)>:$", line)
            if m:
                cur = m.group(1)
                funcs[cur] = []
                continue
            m = re.match(r"^\s*([0-9a-f]+):\s+(.*)$", line)
            if m and cur:
                funcs[cur].append((int(m.group(1), 16), re.sub(r"\s+<.*>$", "", m.group(2).strip())))
        for name, insns in funcs.items():
            res["functions"] += 1
            if name.startswith("pub_"):
                # publisher probe: the initialising store ($0x11) and the later store ($0x22) are both emitted, in this order
                texts = [t for _, t in insns]
                i11 = [i for i, t in enumerate(texts) if re.match(r"mov[lq]?\s+\$0x11,", t)]
                i22 = [i for i, t in enumerate(texts) if re.match(r"mov[lq]?\s+\$0x22,", t)]
                res["publishers"] = res.get("publishers", 0) + 1
                if not i22:
                    res["internal"] = "publisher probe %s: cannot find the second store: %s" % (name, "; ".join(texts))
                elif not i11 or min(i11) > min(i22):
                    res["violations"].append("%s compiled at %s: the store that initialises the node before it is published was removed or moved "
                                             "below the publication (rcu_assign_pointer no longer orders it for the compiler): %s"
                                             % (name, opt, "; ".join(t for t in texts if not t.startswith(("nop", "data16", "cs ")))))
                continue
            addrs = [a for a, _ in insns]
            idx = {a: i for i, a in enumerate(addrs)}
            succ = {i: [] for i in range(len(insns))}
            loads = set()
            for i, (a, t) in enumerate(insns):
                parts = t.split(None, 1)
                mn = parts[0]
                ops = parts[1] if len(parts) > 1 else ""
                if mn == "ret":
                    continue
                if mn.startswith("j"):
                    try:
                        tgt = int(ops.split()[0], 16)
                    except ValueError:
                        res["internal"] = "indirect jump in %s: %s" % (name, t)
                        continue
                    if tgt in idx:
                        succ[i].append(idx[tgt])
                    if mn == "jmp":
                        continue
                if i + 1 < len(insns):
                    succ[i].append(i + 1)
                # a memory load: a memory operand that is a source (AT&T: first operand), not lea / nop, not the stack
                if not mn.startswith("nop") and mn != "lea" and mn not in ("data16", "cs"):
                    first = ops.split(",")[0] if ops else ""
                    srcmem = "(" in first and "%rsp" not in first
                    if mn.startswith("cmp") or mn.startswith("test"):
                        srcmem = "(" in ops and "%rsp" not in ops
                    if mn == "lock" or mn.startswith("xchg"):
                        srcmem = "(" in ops
                    if srcmem:
                        loads.add(i)
            # Tarjan SCC
            index, low, onstack, stack, sccs = {}, {}, set(), [], []
            sys.setrecursionlimit(10000)

            def strong(v):
                index[v] = low[v] = len(index)
                stack.append(v)
                onstack.add(v)
                for w in succ[v]:
                    if w not in index:
                        strong(w)
                        low[v] = min(low[v], low[w])
                    elif w in onstack:
                        low[v] = min(low[v], index[w])
                if low[v] == index[v]:
                    comp = []
                    while True:
                        w = stack.pop()
                        onstack.discard(w)
                        comp.append(w)
                        if w == v:
                            break
                    sccs.append(comp)

            for v in range(len(insns)):
                if v not in index:
                    strong(v)
            for comp in sccs:
                cyc = len(comp) > 1 or comp[0] in succ[comp[0]]
                if not cyc:
                    continue
                res["cycles"] += 1
                if not (set(comp) & loads):
                    body = "; ".join(insns[i][1] for i in sorted(comp))
                    res["violations"].append("%s compiled at %s: a loop of the polling reader contains no memory load (the forward-pointer load "
                                             "was hoisted out of the loop, so a node published later is never seen): %s" % (name, opt, body))
    json.dump(res, sys.stdout)


if __name__ == "__main__":
    main()
