/* Finding (C09, found by C16's thorough tier through scenario fork2 on the qsbr flavor, commit b13e154 repairs it):
 * under QSBR, cds_lfht_resize() never returns when a lazy resize is queued for the worker at the same time.
 *
 *   worker  (do_resize_cb): register_thread()  -> an ONLINE qsbr reader
 *                            mutex_lock(&ht->resize_mutex)            ... blocks, still online
 *   caller  (cds_lfht_resize, offline as the API requires): holds resize_mutex,
 *                            fini_table() -> synchronize_rcu()        ... waits for every online reader: the worker
 *
 * Exhaustive reproduction (unrepaired tree):
 *   VERIF_REPO=<tree before b13e154> bin/check C09 --tier quick
 *     -> lfht_qsbr conc deadlock: no enabled thread: T0:futex_resume@<gp futex> T1:lock@<ht->resize_mutex> ...
 *   job: lfht_qsbr/conc[1,0,0,0]{flags=3 (AUTO_RESIZE|ACCOUNTING), count_commit_order=0, init=8, 3 nodes; thread A: del (queues a
 *        count-driven lazy shrink), thread B: cds_lfht_resize(ht, 2)}; one preemption.
 *
 * Stand-alone program (timing dependent on the real library, deterministic under vrt):
 *   cc -O2 -I<repo>/include lfht_qsbr_resize_worker_deadlock.c <repo>/src/.libs/liburcu-qsbr.a <repo>/src/.libs/liburcu-cds.a \
 *      <repo>/src/.libs/liburcu-common.a -lpthread
 * The program prints "returned" for every round on a repaired library and hangs in some round on the unrepaired one. */
#include <stdio.h>
#include <stdlib.h>
#include <pthread.h>
#include <urcu/urcu-qsbr.h>
#include <urcu/rculfhash.h>

struct n { struct cds_lfht_node node; };

int main(void)
{
	int round, i;

	urcu_qsbr_register_thread();
	for (round = 0; round < 20000; round++) {
		struct cds_lfht *ht = cds_lfht_new_flavor(8, 1, 64, CDS_LFHT_AUTO_RESIZE | CDS_LFHT_ACCOUNTING, &urcu_qsbr_flavor, NULL);
		struct n *nodes = calloc(3000, sizeof(*nodes));

		for (i = 0; i < 3000; i++) {		/* enough additions to commit the split counters: lazy grow requests */
			cds_lfht_node_init(&nodes[i].node);
			cds_lfht_add(ht, (unsigned long)i * 2654435761UL, &nodes[i].node);
		}
		urcu_qsbr_thread_offline();		/* not inside a read-side section, as cds_lfht_resize requires */
		cds_lfht_resize(ht, 2);			/* shrink: synchronize_rcu inside the resize mutex */
		urcu_qsbr_thread_online();
		for (i = 0; i < 3000; i++)
			cds_lfht_del(ht, &nodes[i].node);
		urcu_qsbr_thread_offline();
		cds_lfht_resize(ht, 1);
		urcu_qsbr_thread_online();
		urcu_qsbr_quiescent_state();
		cds_lfht_destroy(ht, NULL);
		if (round % 1000 == 0)
			printf("round %d returned\n", round);
		urcu_qsbr_synchronize_rcu();
		/* nodes are leaked on purpose (the teardown of an AUTO_RESIZE table is deferred) */
	}
	urcu_qsbr_unregister_thread();
	return 0;
}
