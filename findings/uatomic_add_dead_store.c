#include <stdint.h>
#include <stdio.h>
#include <string.h>
#include <urcu/uatomic.h>
static unsigned char buf[16] __attribute__((aligned(16)));
__attribute__((noinline)) void t(uint8_t old, uint8_t a) {
	uint8_t *p = buf + 3;
	memset(buf, 0xa5, 16);
	memcpy(p, &old, 1);
	uatomic_add(p, a);
	printf("old=%d a=%d -> %d (expect %d)\n", old, a, *p, (uint8_t)(old + a));
}
int main(void){ t(0,0); t(1,2); t(200,100); return 0; }
