/* Finding (C19 / C15, bp flavor): a signal handler that uses the read side self-deadlocks when it
 * interrupts an exiting thread inside urcu_bp_exit() (called from the pthread-key destructor with
 * the signal mask already restored and init_lock held): the handler's rcu_read_lock() finds the thread
 * unregistered, calls urcu_bp_register() -> _urcu_bp_init() -> mutex_lock(&init_lock) again.
 *
 * Deterministic demonstration on the real liburcu-bp: pthread_mutex_lock is interposed (the real one
 * is still called); while a thread is in its exit phase and SIGUSR1 is not blocked, the signal is
 * raised right after a mutex was acquired - a signal arriving at that instruction.
 * build: gcc -O1 -o demo bp_exit_signal_deadlock.c -I$REPO/include $REPO/src/.libs/liburcu-bp.a \
 *        $REPO/src/.libs/liburcu-common.a -lpthread -ldl
 * exit 0: thread exit completed (with the repaired library no mutex is taken with signals unblocked
 * during thread exit, so no signal is injected at all); exit 1: deadlock (watchdog). */
#define _GNU_SOURCE
#include <dlfcn.h>
#include <pthread.h>
#include <signal.h>
#include <stdio.h>
#include <stdlib.h>
#include <unistd.h>
#include <urcu/urcu-bp.h>

static __thread int in_exit;
static volatile int handler_runs;

static void handler(int sig)
{
	(void)sig;
	urcu_bp_read_lock();
	handler_runs++;
	urcu_bp_read_unlock();
}

int pthread_mutex_lock(pthread_mutex_t *m)
{
	static int (*real)(pthread_mutex_t *);
	int r;

	if (!real)
		real = (int (*)(pthread_mutex_t *))dlsym(RTLD_NEXT, "pthread_mutex_lock");
	r = real(m);
	if (in_exit == 1) {
		sigset_t cur;

		pthread_sigmask(SIG_SETMASK, NULL, &cur);
		if (!sigismember(&cur, SIGUSR1)) {
			in_exit = 2;		/* once */
			raise(SIGUSR1);		/* delivered here, with mutex m held */
		}
	}
	return r;
}

static void *thr(void *a)
{
	(void)a;
	urcu_bp_read_lock();		/* registers the thread (lazy registration) */
	urcu_bp_read_unlock();
	in_exit = 1;			/* from now on: thread exit, key destructor -> unregister */
	return NULL;
}

static void watchdog(int sig)
{
	static const char msg[] = "FAIL: thread exit deadlocked (signal handler's read-side section inside urcu_bp_exit)\n";

	(void)sig;
	if (write(2, msg, sizeof(msg) - 1) < 0)
		_exit(3);
	_exit(1);
}

int main(void)
{
	pthread_t t;

	signal(SIGUSR1, handler);
	signal(SIGALRM, watchdog);
	alarm(5);
	urcu_bp_read_lock();		/* keep the library initialised (refcount > 1) */
	urcu_bp_read_unlock();
	pthread_create(&t, NULL, thr, NULL);
	pthread_join(t, NULL);
	printf("thread exit completed; a signal could be injected with a mutex held and signals unblocked %d time(s)\n", handler_runs);
	return 0;
}
