/* Plain reproduction (no model checker): register, defer, barrier, unregister, register again.
 * Before the fix this aborts with: Assertion `(defer_queue).last_head == 0' failed.
 * build: gcc -I/repo/include defer_reregister.c -L/repo/src/.libs -lurcu-memb -lurcu-common -lpthread */
#include <stdio.h>
#include <urcu/urcu-memb.h>
static int ran;
static void f(void *p) { (void)p; ran++; }
int main(void)
{
	urcu_memb_register_thread();
	if (urcu_memb_defer_register_thread()) return 2;
	urcu_memb_defer_rcu(f, (void *)0x1000);
	urcu_memb_defer_barrier();
	urcu_memb_defer_unregister_thread();
	if (urcu_memb_defer_register_thread()) return 2;	/* aborted here before the fix */
	urcu_memb_defer_rcu(f, (void *)0x1000);
	urcu_memb_defer_unregister_thread();
	urcu_memb_unregister_thread();
	printf("ran=%d\n", ran);
	return ran == 2 ? 0 : 1;
}
