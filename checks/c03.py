from checks.common import Build, Job
from checks import cross

PROP = "C03"
BUILDS = [Build("cr_spec", "harness/c03_callrcu.c", flavor="spec"),
          Build("cr_memb", "harness/c03_callrcu.c", flavor="memb"),
          Build("cr_qsbr", "harness/c03_callrcu.c", flavor="qsbr"),
          Build("cr_bp", "harness/c03_callrcu.c", flavor="bp")]
BUILDS = BUILDS + cross.gp_builds() + cross.fork_builds()   # cross-property core jobs (checks/cross.py)
RULE = ("every schedule (preemption budget, x86-TSO delays, futex faults) of call_rcu scenarios - default, per-thread, per-CPU and "
        "RT helpers, concurrent enqueuers, a callback queued while the helper waits for an earlier batch's grace period, re-enqueue from a "
        "callback, helper destroyed with callbacks pending - running the "
        "repo's urcu-call-rcu-impl.h over the specification flavor (synchronize_rcu returns as early as the specification "
        "allows) and, shallower, over real flavors; oracles: each callback invoked exactly once with its own rcu_head "
        "(lost callback = deadlock/livelock of the awaiting main thread), litmus and interval grace-period oracles, "
        "reclamation (use-after-free) oracle")
ASSUMPTIONS = ["specification flavor states exactly C01's guarantee (assume-guarantee with C01/C02)", "x86-TSO", "vrt futex model",
               "2 CPUs (VRT_NCPUS=2) for per-CPU helpers"]
DEADLINE = {"quick": 200, "thorough": 1700}


def jobs(tier):
    J = []
    q = tier == "quick"
    S = "cr_spec"
    J.append(Job(S, "default", "3,0,0,0" if q else "4,0,0,0", workers=8))
    J.append(Job(S, "default", "2,1,0,0" if q else "3,1,0,0", workers=8))
    J.append(Job(S, "default", "2,0,1,0", workers=8))
    J.append(Job(S, "reclaim", "3,0,0,0", workers=8))
    J.append(Job(S, "reclaim", "2,1,0,0", workers=8))
    J.append(Job(S, "two_enq", "2,0,0,0" if q else "2,1,0,0", workers=8))
    # a callback queued while the helper's grace period for an earlier batch is in flight needs a grace period of its own
    J.append(Job(S, "during_gp", "2,0,0,0" if q else "3,0,0,0", workers=8))
    J.append(Job(S, "during_gp", "1,1,0,0" if q else "2,1,0,0", workers=8))
    J.append(Job(S, "per_thread", "2,0,0,0", workers=8))
    J.append(Job(S, "per_thread", "1,1,0,0" if q else "2,1,0,0", workers=8))
    J.append(Job(S, "per_thread", "2,0,0,0", {"rt": 1}, workers=8))
    J.append(Job(S, "free_pending", "2,0,0,0", workers=8))
    J.append(Job(S, "free_pending", "1,0,1,0", workers=8))
    J.append(Job(S, "reenqueue_free", "2,0,0,0" if q else "3,0,0,0", workers=8))
    J.append(Job(S, "reenqueue_free", "1,1,0,0", workers=8))
    J.append(Job(S, "reenqueue_free", "1,0,0,0", {"rt": 1}, workers=8))
    for cpu in (0, 1):
        if not q or cpu == 1:
            J.append(Job(S, "per_cpu_free_race", "1,0,0,0,1" if q else "1,0,0,0,2", {"cpu": cpu}, {"VRT_NCPUS": 2}, workers=8))
        J.append(Job(S, "per_cpu_free_race", "1,0,0,0,0", {"cpu": cpu, "yield_first": 0}, {"VRT_NCPUS": 2}, workers=8))
    # the enqueuer enters call_rcu() while the teardown already waits for its grace period (kept open by a reader)
    J.append(Job(S, "per_cpu_free_race", "1,0,0,0,1", {"cpu": 0, "hold": 1}, {"VRT_NCPUS": 1}, workers=8))
    if not q:
        J.append(Job(S, "per_cpu_free_race", "1,0,0,0,0", {"cpu": 1, "hold": 1}, {"VRT_NCPUS": 2}, workers=16))
    for cpu in (0, 1):
        J.append(Job(S, "per_cpu", "1,0,0,0,0" if q else "1,0,0,0,2", {"cpu": cpu, "migrate": cpu}, {"VRT_NCPUS": 2}, workers=8))
    # per-CPU helpers whose affinity request fails with EINVAL (CPU not available to the process): tolerated, callbacks still run
    for cpu in (0, 1):
        J.append(Job(S, "per_cpu", "1,0,0,0,0", {"cpu": cpu, "migrate": cpu, "affinity_einval": 1, "affinity_period": 1}, {"VRT_NCPUS": 2}, workers=8))
    J.append(Job(S, "reenqueue", "2,0,0,0" if q else "3,0,0,0", workers=8))
    J.append(Job(S, "reenqueue", "1,1,0,0" if q else "2,1,0,0", workers=8))
    for b, env in (("cr_memb", {"VRT_MEMBARRIER": 2}), ("cr_qsbr", {}), ("cr_bp", {"VRT_MEMBARRIER": 0})):
        p = {"qs_attempts": 1, "wait_attempts": 1}
        J.append(Job(b, "default", "2,0,0,0", p, env, workers=8))
        J.append(Job(b, "default", "1,1,0,0", p, env, workers=8))
        J.append(Job(b, "reclaim", "2,0,0,0", p, env, workers=8))
        if not q:
            J.append(Job(b, "default", "2,1,0,0", p, env, workers=8))
            J.append(Job(b, "per_thread", "2,0,0,0", p, env, workers=8))
            J.append(Job(b, "reenqueue", "2,0,0,0", p, env, workers=8))
    if not q:
        J.append(Job(S, "two_enq", "3,0,0,0", workers=16))
        J.append(Job(S, "per_thread", "3,0,0,0", workers=16))
        J.append(Job(S, "free_pending", "3,0,0,0", workers=16))
        J.append(Job(S, "free_pending", "2,1,0,0", workers=16))
    # the components this property's guarantee is built on, on the real code (checks/cross.py)
    J += cross.gp_core(tier)
    J += cross.fork_core(tier)
    return J


LEVEL_TEXT = ("Exhaustive enumeration (within budgets) of schedules, store delays and futex faults of call_rcu scenarios over the real "
              "urcu-call-rcu-impl.h code, instantiated over a specification RCU flavor (adversarially early grace periods) and over "
              "real flavors; exactly-once, grace-period and reclamation oracles on every execution.")
LEVEL_NOTE = ("Trusted: specification flavor (C01 as assumption), x86-TSO, futex model. Bounds: <=2 enqueuers, <=3 callbacks, 1 reader, "
              "<=3 helpers; spec P<=3 / P2D1 / P2F1 quick, P<=4 / P3D1 thorough; real flavors P<=2 / P1D1.")
