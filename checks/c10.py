from checks.common import Build, Job

PROP = "C10"
BUILDS = [Build("c10", "harness/c10_wfcq.c")]
RULE = ("every schedule (preemption-bounded, plus x86-TSO store delays) of each wfcqueue/wfqueue scenario is executed on "
        "the real code; each complete call/return history is checked by brute-force linearizability search against a "
        "FIFO specification (enqueue 'was non-empty' result, empty(), LAST state, splice codes, iteration), WOULDBLOCK "
        "legality and conservation; non-trivial = executions with inter-thread communication")
ASSUMPTIONS = ["x86-TSO memory model; gcc maps relaxed/release/acquire atomics to plain mov",
               "bounds: <=3 concurrent threads, <=4 nodes, budgets listed per job",
               "vrt scheduler/futex/mutex models"]
DEADLINE = {"quick": 150, "thorough": 1500}


def jobs(tier):
    J = []
    q = tier == "quick"
    for api in (0, 1, 2, 3):
        J.append(Job("c10", "mpsc", "2,0,0,0", {"api": api}))
        J.append(Job("c10", "last", "2,0,0,0" if q else "3,0,0,0", {"api": api}))
        J.append(Job("c10", "iter", "2,0,0,0", {"api": api}))
        for pre in (0, 1, 2, 3):
            J.append(Job("c10", "splice", "2,0,0,0", {"api": api, "pre": pre}))
        J.append(Job("c10", "splice_dst", "2,0,0,0", {"api": api}))
        J.append(Job("c10", "last", "1,1,0,0", {"api": api}))
        J.append(Job("c10", "mpsc", "1,1,0,0", {"api": api, "ndeq": 2}))
    for api in (0, 3):
        J.append(Job("c10", "mpmc", "2,0,0,0", {"api": api}))
    J.append(Job("c10", "splice_src", "2,0,0,0" if q else "3,0,0,0", {"api": 0}, workers=8))
    J.append(Job("c10", "splice_src", "1,1,0,0" if q else "2,1,0,0", {"api": 0}, workers=8))
    J.append(Job("c10", "legacy", "2,0,0,0"))
    J.append(Job("c10", "legacy", "1,1,0,0"))
    # remaining exported entry points: unlocked dequeue with state, legacy single-dequeuer entry point
    J.append(Job("c10", "mpsc", "2,0,0,0", {"api": 4}))
    J.append(Job("c10", "last", "2,0,0,0", {"api": 4}))
    J.append(Job("c10", "last", "1,1,0,0", {"api": 4}))
    J.append(Job("c10", "legacy", "2,0,0,0", {"single": 1}))
    J.append(Job("c10", "legacy", "1,1,0,0", {"single": 1}))
    for api in (0, 1, 2, 3):     # deeper TSO budgets for the paths that end in a plain store
        J.append(Job("c10", "mpsc", "2,1,0,0", {"api": api}, workers=8))
        J.append(Job("c10", "splice", "2,1,0,0", {"api": api, "pre": 3}, workers=8))
    if not q:
        for api in (0, 1, 2, 3):
            J.append(Job("c10", "mpsc", "3,0,0,0", {"api": api}, workers=8))
            J.append(Job("c10", "splice", "3,0,0,0", {"api": api, "pre": 1, "enq2": 1}, workers=8))
            J.append(Job("c10", "splice", "3,1,0,0", {"api": api, "pre": 3}, workers=8))
            J.append(Job("c10", "iter", "3,0,0,0", {"api": api}, workers=8))
            J.append(Job("c10", "mpsc", "3,1,0,0", {"api": api}, workers=8))
        J.append(Job("c10", "mpmc", "3,0,0,0", {"api": 3}, workers=8))
        J.append(Job("c10", "legacy", "3,0,0,0", workers=8))
        J.append(Job("c10", "legacy", "2,1,0,0", workers=8))
    return J

LEVEL_TEXT = ("Exhaustive enumeration (within preemption/store-delay budgets) of the schedules of 7 small scenarios over the real "
              "wfcqueue/wfqueue code; every terminal history is decided by a brute-force linearizability search. Bounded model "
              "checking is the right level: the property quantifies over schedules of short operations and bugs of this class "
              "need 1-2 preemptions.")
LEVEL_NOTE = ("Trusted: x86-TSO store-buffer model and gcc's C11->x86 mapping, vrt's mutex/futex models, the FIFO specification "
              "(splice modelled with two linearization points: source emptied, destination appended). Bounds: <=3 threads, <=4 "
              "nodes, P<=2 (+P1D1) quick, P<=3 (+P2D1) thorough.")
