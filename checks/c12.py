from checks.common import Build, Job
from checks import cross

PROP = "C12"
BUILDS = [Build("c12", "harness/c12_lfq.c", extra_repo=["rculfqueue.c"])]
BUILDS = BUILDS + cross.gp_builds() + cross.callrcu_builds()   # cross-property core jobs (checks/cross.py)
RULE = ("every schedule (preemption / TSO-delay budget) of 2-3 threads enqueueing and dequeueing inside (specification) read-side "
        "sections on the real rculfqueue code, with dequeued nodes and internal dummy nodes freed by a reclaimer thread after a "
        "specification grace period (which may end as early as the specification allows); oracles: FIFO linearizability, NULL "
        "only when empty at some instant, only user nodes returned, conservation, use-after-free detection, destroy succeeds "
        "iff empty")
ASSUMPTIONS = ["specification flavor (C01 as assumption)", "x86-TSO", "the queue's call_rcu hook is modelled by a reclaimer thread"]
DEADLINE = {"quick": 150, "thorough": 1500}


def jobs(tier):
    q = tier == "quick"
    J = [Job("c12", "eq_dq", "2,0,0,0" if q else "3,0,0,0", workers=8),
         Job("c12", "eq_dq", "1,1,0,0" if q else "2,1,0,0", workers=8),
         Job("c12", "dq2", "2,0,0,0" if q else "3,0,0,0", workers=8),
         Job("c12", "dq2", "1,1,0,0" if q else "2,1,0,0", workers=8),
         Job("c12", "pingpong", "3,0,0,0" if q else "4,0,0,0", workers=8),
         Job("c12", "pingpong", "2,1,0,0", workers=8),
         Job("c12", "pingpong", "2,0,0,0", {"destroy_nonempty": 1}, workers=8)]
    # the components this property's guarantee is built on, on the real code (checks/cross.py)
    J += cross.gp_core(tier)
    J += cross.callrcu_core(tier)
    return J


LEVEL_TEXT = ("Exhaustive enumeration (within budgets) of the schedules of enqueue/dequeue scenarios on the real rculfqueue code; FIFO "
              "linearizability, dummy-node handling and reclamation safety decided on every execution.")
LEVEL_NOTE = ("Trusted: specification flavor, x86-TSO. Bounds: <=3 queue threads + reclaimer, <=4 nodes, P<=2/3 + P1D1/P2D1 quick.")
