from checks.common import Build, Job
from checks import cross
from checks import c01

PROP = "C02"
BUILDS = c01.BUILDS
CONFIGS = c01.CONFIGS
BUILDS = BUILDS + cross.gp_builds(("bp","memb"))   # cross-property core jobs (checks/cross.py)
RULE = ("every schedule within the preemption / TSO-delay / futex-fault budget of reader/updater scenarios on the real flavor "
        "code (spin bounds 1 and 2 so that the spin->sleep transition lands everywhere); fault menu at every FUTEX_WAIT: "
        "spurious 0, EINTR, ENOSYS, plus the whole-run configuration 'futex always ENOSYS' (compat fallback); oracle: every "
        "execution terminates - the scheduler reports deadlock (no enabled thread), livelock (no state change) or horizon; "
        "C01's oracles are evaluated as well")
ASSUMPTIONS = ["fair scheduler: a thread that executed a spin/sleep hint runs again only after another thread moved",
               "futex model: WAIT compares and sleeps atomically; WAKE wakes sleeping waiters only",
               "bounds: <=2 readers, <=3 concurrent callers"]
DEADLINE = {"quick": 170, "thorough": 1700}


def jobs(tier):
    J = []
    q = tier == "quick"
    for (b, env) in CONFIGS:
        p1 = {"qs_attempts": 1, "wait_attempts": 1, "yield_in_section": 1}
        p2 = {"qs_attempts": 2, "wait_attempts": 2, "yield_in_section": 1}
        J.append(Job(b, "basic", "2,1,1,0", p1, env, workers=8))
        J.append(Job(b, "basic", "3,1,0,0", p2, env, workers=8))
        J.append(Job(b, "two_sections", "2,1,1,0", p1, env, workers=8))
        J.append(Job(b, "two_sections", "2,1,0,0", p2, env))
        J.append(Job(b, "basic", "3,0,0,0", dict(p1, futex_enosys=1), env))
        J.append(Job(b, "two_sections", "2,0,0,0", dict(p2, futex_enosys=1), env))
        J.append(Job(b, "merged", "2,0,0,0", p1, env))
        J.append(Job(b, "merged", "1,0,1,0", p1, env))
        J.append(Job(b, "merged", "1,0,0,0", dict(p1, futex_enosys=1), env))
        # quick: the three-thread scenarios run once per flavor (the second membarrier configuration of memb / bp only changes
        # smp_mb_master, which the two-thread scenarios above explore in both configurations)
        dup = q and env.get("VRT_MEMBARRIER") == 0
        if not dup:
            J.append(Job(b, "three_callers", "1,0,0,0", p1, env))
        if not q or (b == "gp_mb"):
            J.append(Job(b, "three_callers", "1,0,1,0", p1, env, workers=12))
        if not dup:
            J.append(Job(b, "two_readers", "2,0,0,0", p1, env))
        if b == "gp_qsbr":
            # callers that are themselves registered, online readers (they must be offline while they wait, leader or not)
            J.append(Job(b, "merged", "2,0,0,0", dict(p1, upd_registered=1), env))
            J.append(Job(b, "three_callers", "1,0,0,0", dict(p1, upd_registered=1), env))
            # a reader that reports a quiescent state and then stays online and idle: that report is the updater's only wake-up
            J.append(Job(b, "qs_idle", "2,1,0,0", p1, env, workers=8))
            J.append(Job(b, "qs_idle", "1,1,1,0", p1, env, workers=8))
        if b == "gp_bp":
            J.append(Job(b, "bp_fork_handlers", "2,0,0,0", p1, env))
            J.append(Job(b, "bp_fork_handlers", "1,0,1,0", dict(p1, n=2), env))
        if not q:
            J.append(Job(b, "basic", "3,1,1,0", p1, env, workers=16))
            J.append(Job(b, "basic", "2,1,2,0", p1, env, workers=16))
            J.append(Job(b, "two_sections", "3,1,0,0", p1, env, workers=16))
            J.append(Job(b, "two_sections", "3,0,1,0", p2, env, workers=16))
            J.append(Job(b, "two_sections", "2,0,2,0", p1, env, workers=16))
            J.append(Job(b, "merged", "2,0,1,0", p1, env, workers=16))
            J.append(Job(b, "merged", "2,1,0,0", p1, env, workers=16))
            J.append(Job(b, "three_callers", "2,0,1,0", p1, env, workers=16))
            J.append(Job(b, "two_readers", "2,0,1,0", p1, env, workers=16))
            J.append(Job(b, "two_readers", "2,0,0,0", dict(p1, futex_enosys=1), env, workers=16))
    # the components this property's guarantee is built on, on the real code (checks/cross.py)
    J += cross.sig_core(tier)
    return J


LEVEL_TEXT = ("Exhaustive enumeration of schedules, store delays and futex fault placements (within budgets) over the real "
              "synchronize_rcu()/reader-exit/wake-up code of all flavors; termination is decided per execution by the scheduler "
              "(deadlock, livelock, horizon), which is exactly the 'every call returns' claim on a finite scenario.")
LEVEL_NOTE = ("Trusted: vrt futex model and fair scheduler, x86-TSO model. Bounds: <=2 readers, <=3 callers, 2-thread P2D1F1 / P3D1 quick, "
              "P3D1F1 / P2D1F2 thorough; 3-thread P<=2 or P1F1 quick, P2F1 / P2D1 thorough.")
