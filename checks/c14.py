from checks.common import Build, Job
from checks import cross

PROP = "C14"
BUILDS = [Build("po_spec", "harness/c14_poll.c", flavor="spec"),
          Build("po_spec_wb", "harness/c14_poll.c", flavor="spec", whitebox=True),
          Build("po_memb", "harness/c14_poll.c", flavor="memb"),
          Build("po_bp", "harness/c14_poll.c", flavor="bp")]
BUILDS = BUILDS + cross.gp_builds() + cross.callrcu_builds() + cross.fork_builds()   # cross-property core jobs (checks/cross.py)
RULE = ("every schedule (preemption / TSO-delay / futex-fault budget) of scenarios where 1-2 threads obtain poll handles at arbitrary "
        "points relative to in-flight grace periods, readers and the call_rcu helper, on the real urcu-poll-impl.h + "
        "urcu-call-rcu-impl.h over the specification flavor (and real memb/bp, shallower); oracles: litmus + interval "
        "grace-period oracle between start_poll and the first true poll, repeated polling terminates (livelock detection), "
        "a handle that reported true never reports false, an older handle is complete when a younger one is; the same scenarios are also started "
        "from non-initial worker states (white-box build: grace-period counter at ULONG_MAX and ULONG_MAX-1, so that the handles straddle its "
        "wrap-around)")
ASSUMPTIONS = ["specification flavor (C01 as assumption)", "x86-TSO", "vrt futex model"]
DEADLINE = {"quick": 150, "thorough": 1500}


def jobs(tier):
    J = []
    q = tier == "quick"
    S = "po_spec"
    J.append(Job(S, "one", "2,0,0,0" if q else "3,0,0,0", workers=8))
    J.append(Job(S, "one", "1,1,0,0" if q else "2,1,0,0", workers=8))
    J.append(Job(S, "one", "1,0,1,0" if q else "2,0,1,0", workers=8))
    J.append(Job(S, "two", "1,0,0,0,1" if q else "2,0,0,0,1", workers=8))
    J.append(Job(S, "late", "1,0,0,0,1" if q else "2,0,0,0,1", workers=8))
    J.append(Job(S, "inflight", "1,0,0,0" if q else "2,0,0,0", workers=8))
    J.append(Job(S, "inflight", "0,1,0,0" if q else "1,1,0,0", workers=8))
    # the handles' worker callback sits on a per-thread helper that is destroyed while they are pending
    J.append(Job(S, "inflight", "1,0,0,0,0" if q else "1,0,0,0,1", {"helper": 1}, workers=8))
    J.append(Job(S, "three", "1,0,0,0" if q else "2,0,0,0", workers=8))
    J.append(Job(S, "three", "0,1,0,0,1", workers=8))
    # non-initial start states: the identifiers taken in the scenario straddle the wrap-around of the grace-period counter
    W = "po_spec_wb"
    for sid in (-1, -2):
        J.append(Job(W, "late", "1,0,0,0,0" if q else "1,0,0,0,1", {"start_id": sid}, workers=8))
        J.append(Job(W, "inflight", "1,0,0,0,0" if q else "1,0,0,0", {"start_id": sid}, workers=8))
    J.append(Job(W, "three", "0,0,0,0,1" if q else "1,0,0,0,0", {"start_id": -2}, workers=8))
    for b, env in (("po_memb", {"VRT_MEMBARRIER": 2}), ("po_bp", {"VRT_MEMBARRIER": 0})):
        p = {"qs_attempts": 1, "wait_attempts": 1}
        J.append(Job(b, "one", "1,0,0,0" if q else "2,0,0,0", p, env, workers=8))
        J.append(Job(b, "inflight", "1,0,0,0,0" if q else "1,0,0,0", p, env, workers=8))
    # the components this property's guarantee is built on, on the real code (checks/cross.py)
    J += cross.gp_core(tier)
    J += cross.callrcu_core(tier)
    J += cross.fork_core(tier)
    return J


LEVEL_TEXT = ("Exhaustive enumeration (within budgets) of schedules of handle takers, pollers, readers and the helper thread on the real "
              "polling implementation; early completion, eventual completion and monotonicity decided on every execution.")
LEVEL_NOTE = ("Trusted: specification flavor, x86-TSO, futex model. Bounds: <=2 pollers, <=2 readers; spec P<=2 (1 poller) / P<=1 "
              "quick, +1 thorough.")
