from checks.common import Build, Job

PROP = "C19"
FLAVORS = ["memb", "mb", "bp"]
BUILDS = [Build("gp_" + f, "harness/c01_gp.c", flavor=f) for f in FLAVORS]
CONFIGS = [("gp_memb", {"VRT_MEMBARRIER": 2}), ("gp_memb", {"VRT_MEMBARRIER": 0}), ("gp_mb", {}), ("gp_bp", {"VRT_MEMBARRIER": 2}),
           ("gp_bp", {"VRT_MEMBARRIER": 0})]
RULE = ("a virtual signal (the handler is called synchronously on the interrupted thread's stack, exactly the control flow of a "
        "kernel-delivered signal, but deterministic and replayable) is injected at every visible operation AND every announced plain "
        "memory access of the designated thread(s) - reader inside rcu_read_lock / rcu_read_unlock (outermost and nested) and its "
        "application loads, updater inside synchronize_rcu / call_rcu / rcu_barrier, bp threads during lazy registration and thread "
        "exit - up to the signal budget (nested handlers with budget 2), combined with every schedule of the other threads within "
        "the preemption / store-delay budget; the handler runs rcu_read_lock; load x; load y; rcu_read_unlock; oracles: "
        "rcu_read_ongoing() identical before and after each handler and correct inside/outside sections, C01 litmus and interval "
        "oracles for the handler's section and for the interrupted section, termination (self-deadlock on a library mutex), "
        "callback of an interrupted call_rcu runs exactly once; bp: also inside the fork handlers of a registered / not yet registered thread; FUTEX_WAIT interrupted by the signal (EINTR) in the grace-period leader and in "
        "batched synchronize_rcu waiters must not lose the wake-up")
ASSUMPTIONS = ["x86-TSO", "signals are delivered only between instrumented accesses (every library load/store is announced)",
               "memb/mb: the signal is blocked by the application while the thread is not registered (documented contract)"]
DEADLINE = {"quick": 170, "thorough": 1700}


def jobs(tier):
    q = tier == "quick"
    J = []
    for (b, env) in CONFIGS:
        p1 = {"qs_attempts": 1, "wait_attempts": 1}
        bp = b == "gp_bp"
        for tgt in (1, 2, 3):
            for nest in (0, 1):
                J.append(Job(b, "sig", "2,0,0,1" if (not q or tgt != 3) else "1,0,0,1", dict(p1, target=tgt, nest=nest), env, workers=8))
            J.append(Job(b, "sig", "0,0,0,2" if q else "1,0,0,2", dict(p1, target=tgt), env, workers=8))     # nested handlers
            J.append(Job(b, "sig", "1,1,0,1", dict(p1, target=tgt), env, workers=8))
        J.append(Job(b, "sig", "1,0,0,1", dict(p1, target=2, callrcu=1), env, workers=8))
        J.append(Job(b, "sig", "1,0,0,1", dict(p1, target=1, yield_in_section=1), env, workers=8))
        J.append(Job(b, "sig", "1,0,0,1", {"qs_attempts": 2, "wait_attempts": 2, "target": 3}, env, workers=8))
        # a signal that lands while the thread sleeps in FUTEX_WAIT makes the system call return EINTR (fault budget 1):
        # interrupted leader (sig) and interrupted batched waiters (merged, three_callers)
        J.append(Job(b, "sig", "1,0,1,1", dict(p1, target=2), env, workers=8))
        J.append(Job(b, "merged", "1,0,1,0", p1, env, workers=8))
        J.append(Job(b, "three_callers", "1,0,1,0", p1, env, workers=8))
        # process-directed signal: any thread of the process that does not block it may run the handler - including
        # the library's call_rcu / defer_rcu helper threads unless the library keeps signals blocked in them
        J.append(Job(b, "sig", "0,0,0,1,0", dict(p1, target=7, helpers=1), env, workers=8))
        J.append(Job(b, "sig", "0,0,0,1,0", dict(p1, target=7, helpers=1, callrcu=1), env, workers=8))
        if not q:
            J.append(Job(b, "sig", "1,0,0,1,0", dict(p1, target=7, helpers=1), env, workers=16))
        if bp:
            for tgt in (1, 2, 3):
                J.append(Job(b, "sig", "1,0,0,1", dict(p1, target=tgt, main_registered=0, init_reader_count=2), env, workers=8))
                J.append(Job(b, "sig", "0,0,0,2", dict(p1, target=tgt, main_registered=0), env, workers=8))
            # the signal may land inside urcu_bp_before_fork / after_fork_parent of a thread that is not registered yet
            J.append(Job(b, "sig", "1,0,0,1", dict(p1, target=2, main_registered=0, forkh=1), env, workers=8))
            J.append(Job(b, "sig", "1,0,0,1", dict(p1, target=2, main_registered=1, forkh=1), env, workers=8))
            # ... and pending across a real fork(), delivered when the child / the parent restores the mask
            for follow in (0, 1):
                for mr in (0, 1):
                    J.append(Job(b, "sig_fork", "1,0,0,2" if mr == 0 else "1,0,0,1", dict(p1, fork_follow=follow, main_registered=mr), env, workers=4))
    return J


LEVEL_TEXT = ("Exhaustive enumeration of signal-injection points (every instrumented access of the interrupted thread) combined with all "
              "schedules within budgets, on the real read-side, grace-period and registration code of the memb, mb and bp flavors.")
LEVEL_NOTE = ("Trusted: x86-TSO; a signal lands between two instrumented accesses (not inside a single instruction, which is how hardware "
              "delivers them). Bounds: 1 reader + 1 updater, nesting 2, signal budget 1 with P<=1 (quick) / P<=2 (thorough), budget 2 "
              "(nested handlers) with P0 / P1.")
