from checks.common import Build, Job
from checks import cross

PROP = "C15"
FLAVORS = ["memb", "mb", "qsbr", "bp"]
BUILDS = [Build("gp_" + f, "harness/c01_gp.c", flavor=f, whitebox=True) for f in FLAVORS]
CONFIGS = [("gp_memb", {"VRT_MEMBARRIER": 2}), ("gp_mb", {}), ("gp_qsbr", {}), ("gp_bp", {"VRT_MEMBARRIER": 2}),
           ("gp_bp", {"VRT_MEMBARRIER": 0})]
BUILDS = BUILDS + cross.gp_builds()   # cross-property core jobs (checks/cross.py)
RULE = ("every schedule (preemption / x86-TSO store-delay / fault / virtual-signal budget) of scenarios in which reader threads register, "
        "unregister, re-register, go offline/online (qsbr) or exit (bp) at every point of both scanning phases of a running "
        "synchronize_rcu(): rereg (two registrations around a grace period), leave_block (a thread that left then blocks forever must "
        "not be waited for), late_register (a thread registers while the grace period waits for another reader with the registry lock dropped, "
        "stays registered: it is in the registry afterwards - white-box walk - and the next grace period waits for its section), churn (3-4 readers coming and going, late comers registering while the grace period runs; bp with an "
        "initial registry capacity of 2 so the arena grows in place and - mremap failing - by a new chunk), slot_reuse (bp: sequential "
        "threads), sig (bp: a handler with a read-side section may hit lazy registration and thread exit); oracles: C01 litmus and "
        "interval oracles, C02 termination, bp reader slot address stable and never shared between live threads, slot of an exited "
        "thread reused, rcu_read_ongoing consistent")
ASSUMPTIONS = ["x86-TSO", "vrt mutex/futex/pthread-key models (key destructors run in the exiting thread)", "bounds per job"]
DEADLINE = {"quick": 170, "thorough": 1700}


def jobs(tier):
    q = tier == "quick"
    J = []
    for (b, env) in CONFIGS:
        p1 = {"qs_attempts": 1, "wait_attempts": 1}
        p2 = {"qs_attempts": 2, "wait_attempts": 2}
        bp = b == "gp_bp"
        cap = {"init_reader_count": 2} if bp else {}
        J.append(Job(b, "rereg", "3,0,0,0", dict(p1, prereg=0), env, workers=8))
        J.append(Job(b, "rereg", "1,1,0,0" if q else "2,1,0,0", dict(p1, prereg=0), env, workers=8))
        J.append(Job(b, "rereg", "2,0,0,0", dict(p2, prereg=0, two=1, **cap), env, workers=8))
        J.append(Job(b, "leave_block", "2,0,0,0" if q else "3,0,0,0", p1, env, workers=8))
        J.append(Job(b, "leave_block", "1,1,0,0", p1, env, workers=8))
        if b == "gp_qsbr":
            J.append(Job(b, "leave_block", "2,0,0,0" if q else "3,0,0,0", dict(p1, offline=1), env, workers=8))
            J.append(Job(b, "leave_block", "1,1,0,0", dict(p1, offline=1), env, workers=8))
            for ur in (0, 1, 2):
                J.append(Job(b, "qsbr", "2,0,0,0", dict(p1, updater_registered=ur), env, workers=8))
        # a thread registers while the grace period waits for another reader and stays registered: present afterwards, waited for next time
        J.append(Job(b, "late_register", "2,0,0,0" if q else "3,0,0,0", dict(p1, **cap), env, workers=8))
        J.append(Job(b, "late_register", "1,1,0,0", dict(p1, yield_in_section=1, **cap), env, workers=8))
        if not bp:
            J.append(Job(b, "late_register", "2,0,0,0", dict(p1, updater_registered=1), env, workers=8))
        J.append(Job(b, "churn", "2,0,0,0" if q else "2,1,0,0", dict(p1, n=2, prestart=1, **cap), env, workers=8))
        J.append(Job(b, "churn", "2,0,0,0", dict(p1, n=3, prestart=1, **cap), env, workers=16))
        J.append(Job(b, "churn", "1,0,0,0" if q else "2,0,0,0", dict(p1, n=3, prestart=2, second_section=1, **cap), env, workers=16))
        J.append(Job(b, "churn", "1,0,0,0", dict(p1, n=4, prestart=2, **cap), env, workers=16))
        J.append(Job(b, "slot_hole", "2,0,0,0" if q else "3,0,0,0", dict(p1, **cap), env, workers=8))
        J.append(Job(b, "slot_hole", "1,1,0,0" if q else "2,1,0,0", dict(p1, **cap), env, workers=8))
        if bp:
            J.append(Job(b, "churn", "1,0,1,0", dict(p1, n=3, prestart=1, mremap_fault=1, **cap), env, workers=16))
            J.append(Job(b, "churn", "1,0,1,0", dict(p1, n=4, prestart=3, mremap_fault=1, main_registered=0, **cap), env, workers=16))
            J.append(Job(b, "slot_reuse", "2,0,0,0" if q else "3,0,0,0", dict(p1, n=4, **cap), env, workers=8))
            J.append(Job(b, "slot_reuse", "1,1,0,0", dict(p1, n=3, **cap), env, workers=8))
            # signals cannot interrupt registration / thread exit
            for tgt, mr in ((1, 1), (1, 0), (2, 0), (3, 0)):
                J.append(Job(b, "sig", "1,0,0,1", dict(p1, target=tgt, main_registered=mr, **cap), env, workers=8))
    # the components this property's guarantee is built on, on the real code (checks/cross.py)
    J += cross.sig_core(tier)
    J += [j for j in cross.gp_core(tier) if j.scenario in ("merged", "qsbr")]
    return J


LEVEL_TEXT = ("Exhaustive enumeration (within budgets) of the schedules of threads registering, unregistering, going offline and exiting "
              "around running grace periods on the real flavor code, with the grace-period, termination and registry-slot oracles "
              "decided on every execution.")
LEVEL_NOTE = ("Trusted: x86-TSO, vrt's pthread-key / mutex / futex models. Bounds: <=4 reader threads + updater, bp initial capacity 2 (growth to 4 "
              "and 8 slots, in place and by new chunk), quick P<=2 / P1D1 / P1F1 / P1S1, thorough P<=3 / P2D1.")
