from checks.lfht_common import *  # noqa
from checks import cross

PROP = "C07"
BUILDS = BUILDS + cross.gp_builds()   # cross-property core jobs (checks/cross.py)
RULE = ("every schedule (preemption / store-delay budget) of k competing del / replace / add_replace calls on the same node with "
        "concurrent adds, lookups, traversals and resizes in the same bucket; the winner frees the node one (adversarially early) "
        "specification grace period after its call returned; shrinks free bucket arrays (order, chunk, mmap and a recording custom "
        "allocator); the emptied table is destroyed; oracles: exactly one competing call obtains the node (linearizability of the "
        "results), every instrumented access by any thread is checked against the set of freed blocks (nodes, bucket arrays, the "
        "table itself), double free detection")
ASSUMPTIONS = ["specification flavor", "x86-TSO", "vrt allocator never reuses memory, so any access to a freed block is detected"]
DEADLINE = {"quick": 170, "thorough": 1700}


def jobs(tier):
    q = tier == "quick"
    J = []
    # node 1 (key 0) is the contended node; node 2 has key 1 (same hash with hmap 0), node 3 is a duplicate of key 0
    base = dict(ninit=3, init_keys=0x010)
    for hm, init in ((0, 1), (2, 2)):
        J.append(conc("2,0,0,0" if q else "3,0,0,0", hmap=hm, init=init, enum=3, nenum=2, nops=1, **base))
        J.append(conc("1,1,0,0" if q else "2,1,0,0", hmap=hm, init=init, enum=3, nenum=2, nops=1, **base))
        J.append(conc("1,0,0,0" if q else "2,0,0,0", workers=16, hmap=hm, init=init, enum=3, nenum=3, nops=1, **base))
    # deferred reclamation: remove, go on (re-add, remove again), free everything one grace period after the last operation
    J.append(conc("2,0,0,0", hmap=0, reclaim=2, prog0=prog((K_DELN, 0), (K_ADD, 0), (K_DEL, 0)), prog1=prog((K_DELN, 0), (K_WALKALL, 0)), **base))
    J.append(conc("1,0,0,0" if q else "2,0,0,0", workers=16, hmap=0, init=1, enum=3, nenum=2, nops=2, reclaim=2, **base))
    # three removers of the same node + a traversal
    J.append(conc("2,0,0,0", workers=16, hmap=0, prog0=prog((K_DELN, 0)), prog1=prog((K_REPLN, 0)), prog2=prog((K_DELN, 0)),
                  prog3=prog((K_WALKALL, 0)), **base))
    J.append(conc("2,0,0,0", workers=16, hmap=0, prog0=prog((K_DELN, 0)), prog1=prog((K_ADDR, 0)), prog2=prog((K_LOOKUP, 0), (K_LOOKUP, 0)),
                  **base))
    # removal of adjacent nodes (the unlink of one passes over the other, logically deleted one)
    J.append(conc("2,0,0,0" if q else "3,0,0,0", hmap=0, prog0=prog((K_DELN, 0)), prog1=prog((K_DELN, 1)),
                  prog2=prog((K_WALKALL, 0)), **base))
    J.append(conc("2,0,0,0" if q else "3,0,0,0", hmap=0, prog0=prog((K_DELN, 0), (K_ADD, 0)), prog1=prog((K_DELN, 2), (K_ADD, 1)), **base))
    # removers while the bucket is split / merged; shrink frees bucket arrays under readers, per allocator
    for mm in (0, 1, 2):
        J.append(conc("2,0,0,0", hmap=2, init=4, mm=mm, prog0=prog((K_RESIZE, 1)), prog1=prog((K_DELN, 0)),
                      prog2=prog((K_LOOKUP, 1), (K_WALKALL, 0)), **base))
        J.append(conc("1,1,0,0", hmap=2, init=4, mm=mm, prog0=prog((K_RESIZE, 1)), prog1=prog((K_LOOKUP, 1), (K_LOOKUP, 0)), **base))
    J.append(conc("2,0,0,0", hmap=2, init=4, mm=1, minb=1, maxb=4, custom=1, prog0=prog((K_RESIZE, 1)), prog1=prog((K_DELN, 0)),
                  prog2=prog((K_ADD, 1)), final_destroy=1, **base))
    J.append(conc("2,0,0,0", hmap=4, init=2, prog0=prog((K_RESIZE, 8)), prog1=prog((K_DELN, 0)), prog2=prog((K_REPLN, 0)), **base))
    J.append(conc("2,0,0,0" if q else "3,0,0,0", hmap=2, init=2, prog0=prog((K_RESIZE, 4), (K_RESIZE, 1)), prog1=prog((K_DELN, 0), (K_ADD, 0)),
                  final_destroy=1, **base))
    # partitioned shrink with pthread_create failing for a helper: the leftover buckets must still be unlinked before the level is freed
    for init in (4, 8):
        J.append(conc("1,0,1,0", workers=16, hmap=1, init=init, min_partition_order=0, pthread_create_eagain=1, prog0=prog((K_RESIZE, 1)),
                      prog1=prog((K_LOOKUP, 1), (K_WALKALL, 0)), final_destroy=1, **base))
    # destroy after concurrent activity (auto-resize table: teardown goes through the worker)
    J.append(conc("2,0,0,0", flags=1, hmap=4, init=1, ninit=3, init_keys=0x210, prog0=prog((K_ADD, 3)), prog1=prog((K_DELN, 0)), final_destroy=1))
    J.append(conc("2,0,0,0", flags=1, hmap=4, init=1, ninit=3, init_keys=0x210, prog0=prog((K_ADD, 3)), final_destroy=1, settle_end=0))
    # destroy while a lazy (count-driven) SHRINK is still pending on the worker: the emptiness walk of cds_lfht_destroy runs over bucket
    # nodes whose arrays the worker is about to free
    for init in (4, 8):
        J.append(conc("1,0,0,0" if q else "2,0,0,0", flags=3, hmap=1, count_commit_order=0, init=init, ninit=3, init_keys=0x210, prog0=prog((K_DEL, 0)),
                      final_destroy=1, settle_end=0))
    J.append(conc("0,1,0,0" if q else "1,1,0,0", flags=3, hmap=1, count_commit_order=0, init=8, ninit=3, init_keys=0x210, prog0=prog((K_DEL, 0)),
                  final_destroy=1, settle_end=0))
    # overlapping resize requests: the target is reversed while a resize runs (levels released by the interrupted resize must not be
    # touched or released again)
    J.append(conc("2,0,0,0", workers=16, hmap=1, init=2, prog0=prog((K_RESIZE, 8), (K_RESIZE, 1)), prog1=prog((K_RESIZE, 1), (K_RESIZE, 8)),
                  prog2=prog((K_LOOKUP, 1), (K_LOOKUP, 0)), **base))
    J.append(conc("2,0,0,0", workers=16, hmap=1, init=4, prog0=prog((K_RESIZE, 8)), prog1=prog((K_RESIZE, 1)), final_destroy=1, **base))
    # sequences of explicit resizes (grow, shrink below, grow again: a level released by a shrink must not be reused) per allocator
    for mm in (0, 1, 2):
        J.append(seq(len=3 if q else 4, keys=1, hmap=1, alpha_seq=1, nresize=12, mm=mm, workers=8))
    # the table bound to qsbr (the resize worker must be online while it walks chains): lazy grow by the worker || delete + reclaim
    J.append(conc_real("lfht_qsbr", {}, "2,0,0,0" if q else "3,0,0,0", flags=1, hmap=4, init=1, ninit=3, init_keys=0x210, prog0=prog((K_ADD, 3)),
                       prog1=prog((K_DEL, 0), (K_LOOKUP, 1))))
    J.append(conc_real("lfht_qsbr", {}, "1,0,0,0" if q else "2,0,0,0", hmap=0, enum=3, nenum=2, nops=1, **base))
    J.append(conc_real("lfht_qsbr", {}, "1,0,0,0" if q else "2,0,0,0", hmap=2, init=4, prog0=prog((K_RESIZE, 1)), prog1=prog((K_DELN, 0)),
                       prog2=prog((K_LOOKUP, 1), (K_WALKALL, 0)), final_destroy=1, **base))
    for b, env in REAL:
        J.append(conc_real(b, env, "2,0,0,0", hmap=0, enum=3, nenum=2, nops=1, **base))
        J.append(conc_real(b, env, "1,0,0,0" if q else "2,0,0,0", hmap=2, init=4, prog0=prog((K_RESIZE, 1)), prog1=prog((K_DELN, 0)),
                           prog2=prog((K_LOOKUP, 1), (K_WALKALL, 0)), final_destroy=1, **base))
    # the components this property's guarantee is built on, on the real code (checks/cross.py)
    J += cross.gp_core(tier)
    return J


LEVEL_TEXT = ("Exhaustive enumeration (within budgets) of the schedules of competing removers of one node, with bystanders and resizes, on "
              "the real rculfhash code; single ownership decided by linearizability of the results, reclamation safety by checking every "
              "instrumented access against freed memory.")
LEVEL_NOTE = ("Trusted: specification flavor (grace periods end as early as allowed), x86-TSO, gcc's TSan instrumentation reports every "
              "library access. Bounds: <=4 threads, 1-2 operations each, tables of 1-8 buckets; quick P<=2 / P1D1, thorough P<=3 / P2D1.")
