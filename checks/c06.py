from checks.lfht_common import *  # noqa

PROP = "C06"
RULE = ("every schedule (preemption / store-delay budget) of concurrent add_unique / add_replace / replace / del programs on one key "
        "and on colliding keys, with reader threads doing lookup + next_duplicate walks and first/next traversals at every point, "
        "optionally with a concurrent resize; oracles: no walk or traversal ever yields two nodes with a uniquely inserted key, "
        "exactly one add_unique wins and losers return a node present during their call, a key continuously present through "
        "replacements is never reported absent (linearizability of lookup + interval rule for walks), each replaced node is "
        "handed to exactly one caller (linearizability of replace/add_replace/del results)")
ASSUMPTIONS = ["specification flavor", "x86-TSO", "keys in these scenarios are inserted only through add_unique/add_replace/replace"]
DEADLINE = {"quick": 170, "thorough": 1700}


def jobs(tier):
    q = tier == "quick"
    J = []
    U = dict(unique=1)
    for hm, init in ((0, 1), (2, 2)):
        # all pairs over the unique-key alphabet, key present and key absent
        J.append(conc("2,0,0,0" if q else "3,0,0,0", hmap=hm, init=init, enum=2, nenum=2, nops=1, ninit=0, **U))
        J.append(conc("2,0,0,0" if q else "3,0,0,0", hmap=hm, init=init, enum=2, nenum=2, nops=1, ninit=1, init_keys=0, **U))
        J.append(conc("1,1,0,0" if q else "2,1,0,0", hmap=hm, init=init, enum=2, nenum=2, nops=1, ninit=1, init_keys=0, **U))
        # ... with a third thread walking duplicates and traversing
        J.append(conc("1,0,0,0" if q else "2,0,0,0", workers=16, hmap=hm, init=init, enum=2, nenum=2, nops=1, ninit=1, init_keys=0,
                      prog2=prog((K_WALKK, 0), (K_WALKALL, 0)), **U))
    # the contended key's node sits BEHIND a colliding other key in the equal-hash run (a logically removed node that is not the
    # head of its run is only skipped by the duplicate walk's own removed test): pairs of 1- and 2-operation programs
    for hm, init in ((0, 1), (0, 2)):
        J.append(conc("2,0,0,0" if q else "3,0,0,0", hmap=hm, init=init, enum=2, nenum=2, nops=1, ninit=2, init_keys=0x01, **U))
        J.append(conc("1,0,0,0" if q else "2,0,0,0", workers=16, hmap=hm, init=init, enum=2, nenum=2, nops=2, ninit=2, init_keys=0x01, **U))
    J.append(conc("2,0,0,0", hmap=0, ninit=3, init_keys=0x021, prog0=prog((K_DEL, 0)), prog1=prog((K_LOOKUP, 0), (K_ADDU, 0)),
                  prog2=prog((K_WALKK, 0)), **U))
    # the contended key's node sits IN FRONT of a colliding other key: a re-inserted node must go to the head of the equal-hash run,
    # never behind the position of a traversal that already passed the old node
    # (reclaim=2: removed nodes are freed after the thread's last operation, as with call_rcu, so a thread can delete and
    # re-insert while a reader is still inside the section that saw the old node)
    J.append(conc("2,0,0,0" if q else "3,0,0,0", hmap=0, ninit=2, init_keys=0x10, reclaim=2, prog0=prog((K_DEL, 0), (K_ADDU, 0)),
                  prog1=prog((K_WALKALL, 0)), **U))
    J.append(conc("2,0,0,0", hmap=0, ninit=2, init_keys=0x10, reclaim=2, prog0=prog((K_DEL, 0), (K_ADDU, 0)),
                  prog1=prog((K_WALKK, 0), (K_WALKALL, 0)), **U))
    J.append(conc("2,0,0,0", hmap=0, ninit=3, init_keys=0x210, reclaim=2, prog0=prog((K_DEL, 0), (K_ADDU, 0)), prog1=prog((K_WALKALL, 0)),
                  prog2=prog((K_DEL, 1), (K_ADDU, 1)), **U))
    J.append(conc("1,0,0,0" if q else "2,0,0,0", workers=16, hmap=0, init=1, enum=2, nenum=2, nops=2, ninit=2, init_keys=0x10, reclaim=2, **U))
    # three competing add_unique on an absent key + walker; colliding other key present
    J.append(conc("2,0,0,0", workers=16, hmap=0, ninit=1, init_keys=1, prog0=prog((K_ADDU, 0)), prog1=prog((K_ADDU, 0)),
                  prog2=prog((K_ADDU, 0)), prog3=prog((K_WALKK, 0)), **U))
    J.append(conc("2,0,0,0" if q else "3,0,0,0", hmap=0, ninit=1, init_keys=1, prog0=prog((K_ADDU, 0)), prog1=prog((K_ADDU, 0)),
                  prog2=prog((K_WALKK, 0), (K_WALKALL, 0)), **U))
    # replace chains under a walker: the key is continuously present
    J.append(conc("2,0,0,0" if q else "3,0,0,0", hmap=0, ninit=2, init_keys=0x10, prog0=prog((K_ADDR, 0), (K_ADDR, 0)),
                  prog1=prog((K_WALKK, 0), (K_LOOKUP, 0)), **U))
    J.append(conc("2,0,0,0", hmap=0, ninit=2, init_keys=0x10, prog0=prog((K_REPL, 0)), prog1=prog((K_ADDR, 0)),
                  prog2=prog((K_LOOKUP, 0), (K_WALKK, 0)), **U))
    J.append(conc("2,0,0,0", hmap=2, init=2, ninit=2, init_keys=0x20, prog0=prog((K_REPL, 0)), prog1=prog((K_REPL, 0)),
                  prog2=prog((K_WALKALL, 0)), **U))
    # add_unique / del / re-add cycles under a walker
    J.append(conc("2,0,0,0", hmap=0, ninit=1, init_keys=0, prog0=prog((K_DEL, 0), (K_ADDU, 0)), prog1=prog((K_ADDU, 0)),
                  prog2=prog((K_WALKK, 0)), **U))
    # with a concurrent resize
    J.append(conc("2,0,0,0" if q else "2,1,0,0", hmap=2, init=2, ninit=1, init_keys=0, enum=2, enum2=4, nenum=2, nops=1,
                  prog2=prog((K_WALKK, 0)), **U))
    J.append(conc("1,0,0,0" if q else "2,0,0,0", workers=16, hmap=2, init=2, ninit=1, init_keys=0, prog0=prog((K_ADDU, 0)),
                  prog1=prog((K_ADDR, 0)), prog2=prog((K_RESIZE, 4)), prog3=prog((K_WALKK, 0), (K_WALKALL, 0)), **U))
    # one unique-key operation against one explicit resize (grow and shrink from 1, 2 and 4 buckets), two threads only
    for hm, init in ((1, 1), (2, 2), (4, 4)):
        J.append(conc("2,0,0,0", hmap=hm, init=init, ninit=1, init_keys=0, enum=2, enum2=4, nenum=2, nops=1, **U))
    # partitioned resize with four helper threads (4 CPUs) under unique adds / lookups of present and absent keys
    for tgt, init in ((8, 1), (1, 8)):
        J.append(Job("lfht", "conc", "0,0,0,0,0" if q else "1,0,0,0,0", dict(hmap=1, init=init, min_partition_order=0, ninit=2, init_keys=0x70,
                     prog0=prog((K_RESIZE, tgt)), prog1=prog((K_LOOKUP, 7), (K_ADDU, 7), (K_ADDU, 6)), **U), {"VRT_NCPUS": 4}, workers=8,
                     deadline=None if q else 600))
    for b, env in REAL:
        J.append(conc_real(b, env, "2,0,0,0", hmap=0, enum=2, nenum=2, nops=1, ninit=1, init_keys=0, **U))
        J.append(conc_real(b, env, "1,0,0,0" if q else "2,0,0,0", workers=16, hmap=0, enum=2, nenum=2, nops=1, ninit=2, init_keys=0x01,
                           prog2=prog((K_WALKK, 0), (K_WALKALL, 0)), **U))
    if not q:
        J.append(conc("2,0,0,0", workers=16, hmap=0, enum=2, nenum=2, nops=2, ninit=1, init_keys=0, **U))
        J.append(conc("2,0,0,0", workers=16, hmap=0, enum=2, nenum=3, nops=1, ninit=1, init_keys=0, **U))
    else:
        J.append(conc("1,0,0,0", workers=16, hmap=0, enum=2, nenum=2, nops=2, ninit=1, init_keys=0, **U))
    return J


LEVEL_TEXT = ("Exhaustive enumeration (within budgets) of the schedules of unique-insertion / replacement programs with concurrent "
              "walkers on the real rculfhash code; duplicate visibility, single winner and never-absent decided on every execution.")
LEVEL_NOTE = ("Trusted: specification flavor, x86-TSO. Bounds: <=4 threads, <=2 operations each, 2 colliding keys, tables of 1-4 buckets; "
              "quick P<=2 / P1D1, thorough P<=3 / P2D1.")
