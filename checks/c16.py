from checks.common import Build, Job
from checks import cross

PROP = "C16"
BUILDS = [Build("fk_memb", "harness/c16_fork.c", flavor="memb", cds=True), Build("fk_mb", "harness/c16_fork.c", flavor="mb", cds=True),
          Build("fk_qsbr", "harness/c16_fork.c", flavor="qsbr", cds=True),
          Build("fk_bp", "harness/c16_fork.c", flavor="bp", cds=True, whitebox=True),
          Build("fk_2fl", "harness/c16_fork.c", flavor="memb", cds=True, defines=["-DTWO_FLAVORS"], extra_repo=["urcu-bp.c"])]
BUILDS = BUILDS + cross.gp_builds()   # cross-property core jobs (checks/cross.py)
RULE = ("fork() bracketed by call_rcu_before_fork / after_fork_parent / after_fork_child (bp: plus urcu_bp_before_fork / after_fork_*), issued "
        "by the only registered application thread (bp: with 0-2 other readers registered, one of them inside a read-side section across "
        "the fork) while 0-3 callbacks are queued and the default / per-thread / per-CPU call_rcu helpers and the hash-table resize worker "
        "are asleep, just woken, or busy; every schedule (preemption / store-delay / futex-fault budget) of the pre-fork prefix is explored "
        "twice: once continuing in the CHILD (every other thread has vanished where it was, mutexes they held stay held) and once in the "
        "PARENT; in the followed process the forking thread then uses read-side sections, synchronize_rcu, call_rcu, rcu_barrier, a fresh "
        "hash table (add, resize, traversal, del, destroy; AUTO_RESIZE variant) and the hash table inherited from before the fork; "
        "oracles: everything returns (deadlock / livelock detection: e.g. joining a thread that does not exist in the child, a mutex "
        "held by a vanished thread), every callback queued before the fork runs exactly once in the followed process, callbacks queued "
        "after it run once, the child's bp registry holds exactly the forking thread (white-box), no use-after-free; scenario fork2: two "
        "consecutive bracketed forks (the process that came out of the first forks again; all four child/parent combinations), with a table and "
        "resize worker from before the first fork that gets more work before the second, and (bp) another thread creating the process's "
        "first AUTO_RESIZE table inside the first bracket")
ASSUMPTIONS = ["parent and child share no memory after fork, so exploring them separately loses no behaviour",
               "vrt fork model: the child keeps only the calling thread; mutex state is copied", "x86-TSO",
               "pthread_atfork-based registration is not explored (discouraged by the README); handlers are called explicitly"]
DEADLINE = {"quick": 170, "thorough": 1700}


def jobs(tier):
    q = tier == "quick"
    J = []
    P1, P2 = "1,0,0,0,0", "2,0,0,0,0"
    for b, envs in (("fk_memb", ({"VRT_MEMBARRIER": 2}, {"VRT_MEMBARRIER": 0})), ("fk_mb", ({},)), ("fk_qsbr", ({},)),
                    ("fk_bp", ({"VRT_MEMBARRIER": 2},))):
        for env in envs:
            for follow in (0, 1):
                p = {"qs_attempts": 1, "wait_attempts": 1, "fork_follow": follow}
                J.append(Job(b, "fork", "2,0,0,0" if q else "3,0,0,0", p, env, workers=8))           # default helper only
                J.append(Job(b, "fork", "1,1,0,0", p, env, workers=8))
                J.append(Job(b, "fork", "1,0,1,0", p, env, workers=8))
                J.append(Job(b, "fork", P1, dict(p, ncb=0), env, workers=4))                        # call_rcu never used before
                J.append(Job(b, "fork", P1, dict(p, ncb=3, yield_before_fork=1), env, workers=4))
                J.append(Job(b, "fork", P1 if q else P2, dict(p, helpers=1), env, workers=8))          # per-thread helper
                J.append(Job(b, "fork", P1 if q else P2, dict(p, helpers=2), env, workers=8))          # per-CPU helpers
                if not q or (b in ("fk_memb", "fk_bp") and env.get("VRT_MEMBARRIER") == 2):
                    J.append(Job(b, "fork", P1, dict(p, helpers=3, lfht=1), env, workers=16))
                else:
                    J.append(Job(b, "fork", "0,0,0,0,0", dict(p, helpers=3, lfht=1), env, workers=4))
                J.append(Job(b, "fork", P1, dict(p, lfht=2), env, workers=8))                          # fresh AUTO_RESIZE table after fork
                J.append(Job(b, "fork", P1, dict(p, pre_lfht=1), env, workers=16))                     # table + worker from before the fork
                J.append(Job(b, "fork", P1, dict(p, pre_lfht=1, ncb=0), env, workers=16))              # ... call_rcu never used before the fork
                if not q:
                    J.append(Job(b, "fork", P1, dict(p, pre_lfht=1, ncb=0, lfht=2), env, workers=16))
                if b == "fk_bp":
                    cap = {"init_reader_count": 2}
                    J.append(Job(b, "fork", P1 if q else P2, dict(p, readers=2, **cap), env, workers=8))
                    J.append(Job(b, "fork", P1 if q else P2, dict(p, readers=2, hold=1, ncb=0, **cap), env, workers=8))
                    J.append(Job(b, "fork", P1, dict(p, readers=1, hold=1, ncb=0, helpers=1, **cap), env, workers=8))
                    J.append(Job(b, "fork", P1 if q else P2, dict(p, readers=1, hold=2, ncb=0, updater=1, **cap), env, workers=8))
        # two consecutive forks (the process that came out of the first one forks again), followed on every combination of sides
        env = envs[0]
        for f1 in (0, 1):
            for f2 in (0, 1):
                p = {"qs_attempts": 1, "wait_attempts": 1, "fork_follow": f1, "fork_follow2": f2}
                deep = (not q) or b == "fk_memb" or f2 == 1
                J.append(Job(b, "fork2", "1,0,0,0" if deep else "0,0,0,0", dict(p, pre_lfht=1), env, workers=8))
                # a call_rcu helper exists and is paused / resumed twice in a row
                J.append(Job(b, "fork2", "1,0,0,0,0" if (deep or f1 == 1) else "0,0,0,0,0", dict(p, ncb=1), env, workers=8))
                if b == "fk_bp" and f1 == 1:
                    # another thread creates the process's first AUTO_RESIZE table while the forking thread is inside its first bracket
                    J.append(Job(b, "fork2", "1,0,0,0" if q else "2,0,0,0", dict(p, racer=1), env, workers=8))
    # hash tables under two flavors in one process: both flavors' fork handlers are called, the shared worker's hooks nest
    for follow in (0, 1):
        J.append(Job("fk_2fl", "fork_two_flavors", "1,0,0,0,0", {"qs_attempts": 1, "wait_attempts": 1, "fork_follow": follow},
                     {"VRT_MEMBARRIER": 2}, workers=8))
        J.append(Job("fk_2fl", "fork_two_flavors", "1,0,0,0,0", {"qs_attempts": 1, "wait_attempts": 1, "fork_follow": follow, "only_second": 1},
                     {"VRT_MEMBARRIER": 2}, workers=8))
    # the components this property's guarantee is built on, on the real code (checks/cross.py)
    J += cross.gp_core(tier)
    J += cross.sig_core(tier)
    return J


LEVEL_TEXT = ("Exhaustive enumeration (within budgets) of the schedules around a fork() bracketed by the documented handlers on the real flavor, "
              "call_rcu and hash-table code, continued separately in the child and in the parent; termination and exactly-once oracles on "
              "every execution.")
LEVEL_NOTE = ("Trusted: vrt's fork model (one followed process per execution; the other side is explored by the sibling job), x86-TSO, futex model. "
              "Bounds: <=3 queued callbacks, default + 1 per-thread + 2 per-CPU helpers, <=2 bp readers; quick P<=2 on the default-helper "
              "scenario and P<=1 (yield deviations 0) elsewhere, thorough +1.")
