from checks.common import Build, Job
from checks import cross

PROP = "C18"
BUILDS = [Build("rculist", "harness/c18_rculist.c", extra_repo=["urcu-pointer.c"])]
BUILDS = BUILDS + cross.gp_builds() + cross.callrcu_builds() + cross.defer_builds() + cross.poll_builds()   # cross-property core jobs (checks/cross.py)
RULE = ("the updater's operation sequence (add_rcu, add_tail_rcu, del_rcu at every position, replace_rcu at every position; hlist: "
        "add_head_rcu, del_rcu) of length 'steps' on an initial list of 0-3 nodes is enumerated, and for each sequence every schedule "
        "(preemption / x86-TSO store-delay budget) of the updater's individual pointer stores against 1-2 readers traversing with the "
        "four for_each variants inside specification read-side sections; plain stores that race with a reader load are promoted to "
        "scheduling points; removed and replaced nodes are freed one specification grace period later; oracles: traversal terminates, "
        "visits nodes in list order, never both a node and its replacement, every node present during the whole traversal exactly once, "
        "only nodes present at some instant, payload initialised, no access to freed nodes; non-trivial = reader and updater touched "
        "the same granule; in addition the control-flow graph of 5 polling readers compiled at -O2 and -O3 from the list headers is "
        "explored structurally: every cycle must contain a memory load (no forward-pointer load hoisted out of a polling loop)")
ASSUMPTIONS = ["specification flavor", "x86-TSO", "one updater at a time (documented requirement)"]
DEADLINE = {"quick": 170, "thorough": 1700}


def jobs(tier):
    q = tier == "quick"
    J = []
    for hl in (0, 1):
        for ninit in (0, 1, 2, 3):
            p = dict(hlist=hl, ninit=ninit, steps=2 if q else 3, readers=1, walks=1)
            J.append(Job("rculist", "list", "2,0,0,0" if q else "3,0,0,0", p, workers=8))
            J.append(Job("rculist", "list", "1,1,0,0" if q else "2,2,0,0", p, workers=8))
        J.append(Job("rculist", "list", "2,0,0,0", dict(hlist=hl, ninit=2, steps=2, readers=2, walks=1), workers=8))
        J.append(Job("rculist", "list", "2,0,0,0", dict(hlist=hl, ninit=2, steps=2 if q else 3, readers=1, walks=2), workers=8))
        J.append(Job("rculist", "list", "1,0,0,0" if q else "2,0,0,0", dict(hlist=hl, ninit=2, steps=3 if q else 4, readers=1, walks=1), workers=8))
    # the components this property's guarantee is built on, on the real code (checks/cross.py)
    J += cross.gp_core(tier)
    J += cross.callrcu_core(tier)
    J += cross.defer_core(tier)
    J += cross.poll_core(tier)
    return J


def extra_violations(bdir):
    """compiler level: the traversal macros must keep one forward-pointer load per step in optimised client code"""
    import json, os, subprocess, sys
    from checks import common
    r = subprocess.run([sys.executable, os.path.join(common.VERIF, "e4", "c18_loops.py"), common.REPO, os.path.join(bdir, "e4")],
                       stdout=subprocess.PIPE, stderr=subprocess.PIPE, text=True)
    try:
        res = json.loads(r.stdout)
    except Exception:  # noqa
        return [("INTERNAL: c18_loops.py produced no result: %s %s" % (r.stdout[-200:], r.stderr[-200:]), "")], {}
    v = [(t, os.path.join(common.VERIF, "e4", "c18_probes.c")) for t in res["violations"]]
    if res.get("internal"):
        v.append(("INTERNAL: " + res["internal"], ""))
    return v, {"compiled_polling_probes": res["functions"], "cfg_cycles_checked": res["cycles"]}


TECHNIQUE = ("stateless preemption-bounded model checking of the real code under a controlled scheduler with x86-TSO store buffers; plus exhaustive "
             "structural exploration of the control-flow graph of optimised polling readers compiled from the headers")
LEVEL_TEXT = ("Exhaustive enumeration of updater operation sequences and, within preemption / store-delay budgets, of all interleavings of "
              "their pointer stores with reader traversals on the real rculist/rcuhlist primitives; traversal consistency decided on "
              "every execution.")
LEVEL_NOTE = ("Trusted: specification flavor, x86-TSO, race-directed promotion finds every plain store a reader can observe. Bounds: lists of "
              "<=5 nodes, 2-3 updater operations, 1-2 readers; quick P<=2 / P1D1, thorough P<=3 / P2D2. The compiler-level clause (no hoisting of "
              "forward-pointer loads) is decided on gcc 12 -O2/-O3 output of 5 probe readers only.")
