"""C20 - uatomic: (a) exhaustive sequential sweep against the documented semantics (E2), (b) instruction-bound
two-thread x86-TSO Promela models of every read-modify-write probe, checked exhaustively by Spin (E4)."""
import hashlib
import json
import os
import re
import shutil
import subprocess
import sys
import time

from checks import common

PROP = "C20"
BUILDS = []
RULE = ("(a) every uatomic operation (set, read, xchg, cmpxchg miss and hit, add_return, sub_return, add, sub, inc, dec, and, or) x 9 types "
        "(u8, s8, u16, s16, u32, s32, u64, s64, unsigned long; pointer cells for xchg/cmpxchg) x every aligned offset inside a guarded "
        "16-byte window x operands: ALL 65536 (old, operand) pairs for the 8-bit types, the full 24x24(x24 for 8-bit, x5 otherwise) "
        "product of a boundary alphabet (0, +-1, +-2, width boundaries 0x7f/0x80/0xff/0x100/.../2^63, alternating bit patterns) for "
        "the others, plus operands whose type differs from the cell type (7 cell types x 8 operand types u8/s8/u16/s16/unsigned/int/unsigned long/long, converted by the C rules) - result and complete memory image (neighbouring bytes included) compared with a plain-C reference, for the x86 "
        "asm back-end and the compiler-builtin back-end, at -O1 and -O2; (b) for each of 10 read-modify-write operations x 4 widths x 2 "
        "back-ends the instructions the compiler emitted for a probe are parsed, interpreted sequentially against the native "
        "function and the documented semantics on a 22-value operand grid (binding), and translated into a Promela model of two "
        "threads with x86-TSO store buffers which Spin explores exhaustively: no lost update / token conservation / single "
        "cmpxchg winner, and no 0/0 outcome of the store-buffering litmus around xchg, successful cmpxchg, add_return, sub_return; the same for a "
        "third build of the x86 back-end as a pre-C11 client sees it (-std=gnu99: compatibility memory-order path), and in all three builds the litmus "
        "also for the stores with an explicit order that the library's own reader fast paths use (uatomic_store CMM_SEQ_CST / CMM_SEQ_CST_FENCE, "
        "uatomic_set + cmm_smp_mb); "
        "for the same four barrier operations x 4 widths x 2 back-ends a compiler-barrier probe (plain load and store on each side of "
        "the operation) is compiled at -O2 and its instruction sequence checked: both loads and both stores are emitted on their side "
        "of the atomic instruction; a case is non-trivial when operand and old value are not both zero")
ASSUMPTIONS = ["x86-TSO; lock-prefixed instructions and xchg with a memory operand are single atomic steps that drain the store buffer (Intel SDM)",
               "the Promela value domain is byte-wide (values are covered by part (a))",
               "atomicity on real silicon is decided on the instruction-level model, not on hardware"]


def sh(cmd, **kw):
    return subprocess.run(cmd, stdout=subprocess.PIPE, stderr=subprocess.STDOUT, text=True, **kw)


def custom_main(tier, replay, bdir, t0):
    repo = common.REPO
    common.ensure_repo_config()
    if replay:
        # a violating Promela model: re-run Spin on it and show the trail
        d = os.path.dirname(os.path.abspath(replay))
        name = os.path.basename(replay)[:-4]
        print(sh(["spin", "-a", os.path.basename(replay)], cwd=d).stdout)
        sh(["gcc", "-O1", "-w", "-DSAFETY", "-o", "pan_r", "pan.c"], cwd=d)
        print(sh(["./pan_r", "-m100000"], cwd=d).stdout[-1500:])
        print(sh(["spin", "-t", "-p", os.path.basename(replay)], cwd=d).stdout[-3000:])
        sys.exit(1)
    os.makedirs(bdir, exist_ok=True)
    viol, internal = [], []
    cases = nontrivial = 0
    samples = []
    # ---- (a) sequential sweep -----------------------------------------------------------------------
    seqsrc = os.path.join(common.VERIF, "e4", "c20_seq.c")
    for tag, defs in (("x86", []), ("builtins", ["-DCONFIG_RCU_USE_ATOMIC_BUILTINS"])):
        for opt in ("-O1", "-O2"):
            exe = os.path.join(bdir, "seq_%s%s" % (tag, opt))
            r = sh(["gcc", opt, "-w"] + defs + ["-I%s/include" % repo, "-include", "%s/include/config.h" % repo, seqsrc, "-o", exe])
            if r.returncode:
                internal.append("compile of c20_seq.c (%s %s) failed: %s" % (tag, opt, r.stdout[-400:]))
                continue
            r = sh([exe, "full" if tier == "thorough" or opt == "-O2" else "quick"])
            m = re.search(r"cases=(\d+) mismatches=(\d+)", r.stdout)
            if not m:
                internal.append("c20_seq %s %s: no verdict: %s" % (tag, opt, r.stdout[-300:]))
                continue
            cases += int(m.group(1))
            nontrivial += int(m.group(1)) - int(m.group(1)) // 576
            samples.append({"sweep": "%s %s" % (tag, opt), "cases": int(m.group(1)), "mismatches": int(m.group(2))})
            if int(m.group(2)):
                first = [l for l in r.stdout.splitlines() if l.startswith("MISMATCH")][:3]
                viol.append(dict(message="%s back-end %s: %s mismatches; first: %s" % (tag, opt, m.group(2), " | ".join(first)), replay=seqsrc))
    # ---- (b) instruction-bound TSO models -----------------------------------------------------------------
    r = subprocess.run([sys.executable, os.path.join(common.VERIF, "e4", "c20_model.py"), repo, os.path.join(bdir, "e4")],
                       stdout=subprocess.PIPE, stderr=subprocess.PIPE, text=True)
    res = None
    try:
        res = json.loads(r.stdout)
    except Exception:  # noqa
        internal.append("c20_model.py produced no result: %s %s" % (r.stdout[-300:], r.stderr[-300:]))
    if res:
        if res.get("internal"):
            internal.append("E4: " + res["internal"])
        for v in res["violations"]:
            viol.append(dict(message="E4 %s: %s" % (v["kind"], v["message"]), replay=v.get("replay", "")))
        samples += res["models"][:3]
    # ---- verdict / evidence -----------------------------------------------------------------------------------
    known = common.load_known(PROP)
    alt = os.path.realpath(repo) != "/repo"
    outroot = os.path.join(common.VERIF, "build", "alt") if alt else common.VERIF
    rdir = os.path.join(outroot, "replays", PROP)
    shutil.rmtree(rdir, ignore_errors=True)
    lines, nviol = [], 0
    for v in viol:
        k = next((k for k in known if re.search(k["signature"], v["message"])), None)
        if k:
            lines.append("KNOWN-FINDING: property=%s %s" % (PROP, k.get("what", k["signature"])))
            continue
        nviol += 1
        dst = v["replay"]
        if not dst:     # never an empty path: the finding itself (probe, back-end, emitted instructions) is the artefact
            os.makedirs(rdir, exist_ok=True)
            dst = os.path.join(rdir, "finding.%s.txt" % hashlib.sha1(v["message"].encode()).hexdigest()[:10])
            with open(dst, "w") as f:
                f.write(v["message"] + "\n")
        if dst and os.path.exists(dst) and dst.endswith(".pml"):
            os.makedirs(rdir, exist_ok=True)
            dst2 = os.path.join(rdir, os.path.basename(dst))
            shutil.copy(dst, dst2)
            dst = dst2
        lines.append("VIOLATION property=%s replay=%s" % (PROP, dst))
        lines.append("  # " + v["message"][:600])
    cov = dict(states=res["states"] if res else 0, transitions=res["transitions"] if res else 0,
               traces_validated_against_impl=res["validated"] if res else 0,
               evaluations=cases + (len(res["models"]) if res else 0), distinct_nontrivial=nontrivial,
               rule=RULE, samples=samples or [{"note": "nothing ran"}], exhaustive=not internal,
               sequential_cases=cases, promela_models=len(res["models"]) if res else 0)
    ev = dict(property_id=PROP, tier=tier, seed=int(os.environ.get("VERIF_SEED", "0") or 0), level="model_checking", coverage=cov,
              assumptions=ASSUMPTIONS, wall_s=round(time.time() - t0, 2), violations=nviol)
    os.makedirs(os.path.join(outroot, "evidence"), exist_ok=True)
    json.dump(ev, open(os.path.join(outroot, "evidence", "%s.json" % PROP), "w"), indent=1)
    for l in sorted(set(l for l in lines if l.startswith("KNOWN"))):
        print(l)
    for l in lines:
        if not l.startswith("KNOWN"):
            print(l)
    print("%s %s: sequential cases=%d promela models=%d states=%d binding checks=%d violations=%d wall=%.1fs" % (
        PROP, tier, cases, cov["promela_models"], cov["states"], cov["traces_validated_against_impl"], nviol, time.time() - t0))
    if internal:
        for m in internal:
            print("INTERNAL: " + m)
        sys.exit(2)
    sys.exit(1 if nviol else 0)


ENGINE = "e2+e4"
TECHNIQUE = ("exhaustive enumeration of operand values against a reference (sequential part) and explicit-state model checking with Spin of "
             "an x86-TSO Promela model generated from, and replayed against, the compiled instructions of each operation")
LEVEL_TEXT = ("Every operation, width, signedness, alignment and (for 8-bit types every, otherwise every boundary) operand combination is executed "
              "and compared with the documented semantics; atomicity and full-barrier behaviour are decided by exhaustive Spin exploration "
              "of a two-thread TSO model generated from the emitted instructions and bound to the native code by a sequential replay.")
LEVEL_NOTE = ("Trusted: the mnemonic table (locked RMW / xchg = one atomic draining step; unlocked RMW = load then store; mov = load or store), the "
              "byte-wide abstraction of the Promela value domain, x86-TSO. Not covered: non-x86 back-ends, more than two threads, adjacent "
              "cells sharing a cache line (no effect under TSO), hardware behaviour.")
