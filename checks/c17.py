from checks.common import Build, Job
from checks import cross

PROP = "C17"
BUILDS = [Build("prog", "harness/c17_progress.c", flavor="spec", cds=True)] + \
         [Build("gp_" + f, "harness/c01_gp.c", flavor=f) for f in ("memb", "mb", "qsbr", "bp")]
BUILDS = BUILDS + cross.gp_builds(("bp","memb"))   # cross-property core jobs (checks/cross.py)
BUILDS = BUILDS + [Build("xlfht", "harness/c05_lfht.c", flavor="spec", cds=True)]
RULE = ("victim threads run enqueue / push / pop / dequeue / splice / add / del / replace / add_unique / resize / synchronize_rcu; every "
        "placement of 1 (or 2) preemptions suspends them at an arbitrary visible step (between the two stores of an enqueue or push, "
        "after a logical delete and before its unlink, inside a resize, while spinning or asleep in wait_for_readers); the probing thread "
        "then runs, in solo mode (every other thread stays frozen), each operation documented wait-free (wfcq enqueue, empty; wfs push, "
        "pop_all, empty; lfs pop_all, empty; lfht lookup and first/next; rcu_read_lock / rcu_read_unlock / nested pair + outermost "
        "unlock that wakes the updater / qsbr quiescent_state, thread_online, thread_offline of a registered thread on the real "
        "flavors) against a fixed own-step bound, each operation documented lock-free (lfs push/pop; lfq enqueue/dequeue; lfht add, "
        "add_unique, add_replace, del, replace) for completion without any spin/sleep hint, mutex wait or futex wait, and each "
        "*_nonblocking variant (wfcq dequeue / splice / first / next, wfs pop / next) for: never waits, WOULDBLOCK only while an "
        "enqueue/push is really in flight; afterwards the victims resume and conservation of nodes is checked")
ASSUMPTIONS = ["a visible step = one atomic access / RMW / fence / system call of the probing thread (plain accesses in between are not counted)",
               "specification flavor for the data structures; real flavors for the read-side probes", "x86-TSO not needed (solo runs)"]
DEADLINE = {"quick": 170, "thorough": 1700}


def jobs(tier):
    q = tier == "quick"
    J = []
    P1, P2, P3 = "1,0,0,0", "2,0,0,0", "3,0,0,0"
    for pre in (0, 1, 2):
        two = (not q) or pre == 1      # two suspended victims: quick only with one node pre-filled
        J.append(Job("prog", "wfcq", P1, {"victims": 1, "prefill": pre}, workers=4))
        for vk in (1, 2):
            J.append(Job("prog", "wfcq", P1, {"victims": 1, "prefill": pre, "vkind": vk}, workers=4))
        for kind in (0, 1):
            J.append(Job("prog", "stack", P1, {"kind": kind, "victims": 1, "prefill": pre}, workers=4))
        J.append(Job("prog", "lfq", P1, {"victims": 1, "prefill": pre}, workers=4))
        J.append(Job("prog", "lfq", P1, {"victims": 1, "prefill": pre, "vdeq": 1}, workers=4))
        if two:
            J.append(Job("prog", "wfcq", P2, {"victims": 2, "prefill": pre}, workers=8))
            for vk in (1, 2):
                J.append(Job("prog", "wfcq", P2, {"victims": 2, "prefill": pre, "vkind": vk}, workers=8))
            for kind in (0, 1):
                J.append(Job("prog", "stack", P2, {"kind": kind, "victims": 2, "prefill": pre}, workers=8))
            J.append(Job("prog", "stack", P2, {"kind": 1, "victims": 2, "prefill": pre, "vpop": 1}, workers=8))
            J.append(Job("prog", "lfq", P2, {"victims": 2, "prefill": pre}, workers=8))
            J.append(Job("prog", "lfq", P2, {"victims": 2, "prefill": pre, "vdeq": 1}, workers=8))
    for vk in (0, 1, 2):
        for hm in (0, 1):
            for init in (1, 2):
                J.append(Job("prog", "lfht", P1, {"victims": 1, "vkind": vk, "hmap": hm, "init": init}, workers=4))
            if not q or (vk == 0 and hm == 0):
                J.append(Job("prog", "lfht", P2, {"victims": 2, "vkind": vk, "hmap": hm}, workers=8))
    for init in (8, 4, 2):
        for n in (5, 7):
            for cco in (0, 1):
                J.append(Job("prog", "lfht_acct", "0,0,0,0", {"init": init, "n": n, "count_commit_order": cco, "hmap": 0}, workers=2))
                J.append(Job("prog", "lfht_acct", "1,0,0,0", {"init": init, "n": n, "count_commit_order": cco, "hmap": 1}, workers=4))
    if not q:
        J.append(Job("prog", "wfcq", P3, {"victims": 2, "prefill": 1}, workers=16))
        J.append(Job("prog", "lfq", P3, {"victims": 2, "prefill": 1}, workers=16))
        J.append(Job("prog", "lfht", P3, {"victims": 2, "vkind": 0, "hmap": 0}, workers=16))
    for b, envs in (("gp_memb", ({"VRT_MEMBARRIER": 2}, {"VRT_MEMBARRIER": 0})), ("gp_mb", ({},)), ("gp_qsbr", ({},)),
                    ("gp_bp", ({"VRT_MEMBARRIER": 2}, {"VRT_MEMBARRIER": 0}))):
        for env in envs:
            for qa in (1, 2):
                p = {"qs_attempts": qa, "wait_attempts": qa}
                J.append(Job(b, "solo_reader", P1, p, env, workers=4))
                J.append(Job(b, "solo_reader", P1, dict(p, hold=1), env, workers=4))
                J.append(Job(b, "solo_reader", P1, dict(p, two_gp=1), env, workers=4))
                if not q or qa == 1:
                    J.append(Job(b, "solo_reader", P2 if q else P3, dict(p, reader=1), env, workers=8))
                    J.append(Job(b, "solo_reader", P2, dict(p, reader=1, hold=1), env, workers=8))
    # lock-freedom from states reached in the MIDDLE of an operation: two adders that both request a lazy grow; the one whose
    # compare-and-swap on the resize target lost must complete once the other has finished (livelock detection decides)
    from checks.lfht_common import prog, K_ADD, K_LOOKUP, K_DEL
    lzp = dict(flags=1, hmap=4, init=1, ninit=3, init_keys=0x210)
    J.append(Job("xlfht", "conc", "2,0,0,0", dict(lzp, prog0=prog((K_ADD, 3)), prog1=prog((K_ADD, 3), (K_LOOKUP, 0))), workers=8))
    J.append(Job("xlfht", "conc", "2,0,0,0", dict(flags=3, hmap=1, count_commit_order=0, init=8, ninit=3, init_keys=0x210,
                                                   prog0=prog((K_DEL, 0), (K_DEL, 1)), prog1=prog((K_DEL, 2), (K_ADD, 3))), workers=8))
    # the components this property's guarantee is built on, on the real code (checks/cross.py)
    J += cross.sig_core(tier)
    return J


TECHNIQUE = ("stateless preemption-bounded model checking of the real code under a controlled scheduler: every suspension point of the victims "
             "is enumerated and the probe operation is run solo with a step bound and a no-waiting monitor")
LEVEL_TEXT = ("Exhaustive enumeration of the suspension points of 1-2 victim threads (every visible step of their operations) crossed with a "
              "menu of probe operations run solo on the real code; the scheduler decides waiting versus working on every execution.")
LEVEL_NOTE = ("Trusted: the step bounds (8 visible steps for O(1) operations, 2 per linked node + 4 for lookups/traversals, 12 for read-side "
              "primitives); the spin hint in caa_cpu_relax() marks every waiting loop. Bounds: <=2 victims, 2 operations each, queues/stacks "
              "of <=3 nodes, tables of <=6 nodes and <=8 buckets.")
