from checks.lfht_common import *  # noqa

PROP = "C05"
RULE = ("every schedule (preemption / x86-TSO store-delay budget) of concurrent programs over the real rculfhash code bound to the "
        "specification RCU flavor: all unordered pairs (and triples, and pairs of 2-op programs) over an 11-operation alphabet "
        "{add, add_unique, add_replace, replace, del, lookup, duplicate walk, full traversal} on colliding and bucket-straddling "
        "hashes, pre-populated tables of 1-4 buckets, order/chunk/mmap allocators, a concurrent explicit resize actor "
        "(grow, shrink, non power of two), the partitioned multi-thread resize and the lazy (chain-length) resize worker; "
        "oracles: Wing-Gong linearizability of the complete call/return history against a set-of-nodes specification, interval "
        "specification of duplicate walks and traversals (resident nodes never missed, only nodes present at some instant, no "
        "node twice), final content, use-after-free detection on nodes and bucket arrays; a case is non-trivial when two "
        "threads touched the same memory granule")
ASSUMPTIONS = ["specification flavor states C01's guarantee (assume-guarantee); a subset of the scenarios also runs over the real memb and bp flavors", "x86-TSO", "nodes are reclaimed by their owner one "
               "specification grace period after removal", "2 CPUs reported to the library"]
DEADLINE = {"quick": 170, "thorough": 1700}

TWO = dict(ninit=2, init_keys=0x10)


def jobs(tier):
    q = tier == "quick"
    J = []
    for hm, init in ((0, 1), (2, 2), (4, 4)):
        J.append(conc("2,0,0,0" if q else "3,0,0,0", hmap=hm, init=init, enum=1, nenum=2, nops=1, **TWO))
        J.append(conc("1,1,0,0" if q else "2,1,0,0", hmap=hm, init=init, enum=1, nenum=2, nops=1, **TWO))
    # three concurrent operations, and two operations per thread
    J.append(conc("1,0,0,0" if q else "2,0,0,0", workers=16, hmap=0, enum=1, nenum=3, nops=1, **TWO))
    J.append(conc("1,0,0,0", workers=16, hmap=2, init=2, enum=1, nenum=2, nops=2, **TWO))
    if not q:
        J.append(conc("2,0,0,0", workers=16, hmap=0, enum=1, nenum=2, nops=2, **TWO))
    # deferred reclamation (as with call_rcu): a thread goes on with its next operation while readers may still hold the removed node
    if not q:
        J.append(conc("2,0,0,0", workers=16, hmap=0, init=1, enum=1, nenum=2, nops=2, reclaim=2, **TWO))
    else:
        J.append(conc("1,0,0,0", workers=16, hmap=0, init=1, enum=2, nenum=2, nops=2, reclaim=2, **TWO))
    J.append(conc("2,0,0,0", hmap=0, reclaim=2, prog0=prog((K_DEL, 0), (K_ADD, 0), (K_DEL, 0)), prog1=prog((K_WALKK, 0), (K_WALKALL, 0)), **TWO))
    J.append(conc("2,0,0,0", hmap=2, init=2, reclaim=2, prog0=prog((K_REPL, 0), (K_DEL, 0), (K_ADD, 0)), prog1=prog((K_LOOKUP, 0), (K_WALKALL, 0)),
                  **TWO))
    # allocators
    for mm in (1, 2, 3):
        J.append(conc("2,0,0,0", hmap=2, init=2, mm=mm, enum=1, nenum=2, nops=1, **TWO))
    J.append(conc("2,0,0,0", hmap=2, init=2, mm=1, minb=2, maxb=4, custom=1, enum=1, nenum=2, nops=1, **TWO))
    # one operation against an explicit resize (1, 2, 4, 3 buckets) from 1, 2 and 4 buckets
    for init, hm in ((1, 1), (2, 2), (4, 4), (4, 0)):
        for mm in ((0, 1, 2) if init == 2 or not q else (0,)):
            J.append(conc("2,0,0,0", hmap=hm, init=init, mm=mm, enum=1, enum2=4, nenum=2, nops=1, **TWO))
        J.append(conc("1,1,0,0" if q else "2,1,0,0", hmap=hm, init=init, enum=1, enum2=4, nenum=2, nops=1, **TWO))
    # operations on a key whose hash is the index of a bucket the concurrent grow is creating (hash in [old size, new size))
    for hm, init, ik in ((1, 1, 0x10), (2, 2, 0x10), (1, 1, 0x0)):
        J.append(conc("2,0,0,0", hmap=hm, init=init, enum=5, enum2=4, nenum=2, nops=1, ninit=2 if ik else 1, init_keys=ik))
    J.append(conc("1,1,0,0", hmap=1, init=1, enum=5, enum2=4, nenum=2, nops=1, **TWO))
    # ... and on a key that lands directly behind a bucket node the concurrent shrink is unlinking (only key 0 stored)
    for hm, init in ((2, 2), (4, 4)):
        J.append(conc("2,0,0,0", hmap=hm, init=init, enum=1, enum2=4, nenum=2, nops=1, ninit=1, init_keys=0x0))
    # partitioned grow with pthread_create failing for one helper: the leftover partition must still be populated
    J.append(conc("1,0,1,0", workers=16, hmap=1, init=1, min_partition_order=0, pthread_create_eagain=1, prog0=prog((K_RESIZE, 4)),
                  prog1=prog((K_LOOKUP, 1), (K_WALKALL, 0)), **TWO))
    J.append(conc("0,0,1,0,0" if q else "1,0,1,0,0", workers=16, hmap=1, init=2, min_partition_order=0, pthread_create_eagain=1, prog0=prog((K_RESIZE, 8), (K_RESIZE, 2)),
                  prog1=prog((K_LOOKUP, 1), (K_LOOKUP, 0)), final_destroy=1, **TWO))
    # two operations against a resize
    J.append(conc("1,0,0,0" if q else "2,0,0,0", workers=16, hmap=2, init=2, enum=1, enum2=4, nenum=2, nops=1,
                  prog2=prog((K_LOOKUP, 0), (K_WALKALL, 0)), **TWO))
    # partitioned resize (helper threads) against a reader and an updater
    J.append(conc("1,0,0,0" if q else "2,0,0,0", hmap=1, init=1, min_partition_order=0, prog0=prog((K_RESIZE, 4)),
                  prog1=prog((K_LOOKUP, 1), (K_WALKALL, 0)), prog2=prog((K_ADD, 3)), **TWO))
    J.append(conc("1,0,0,0" if q else "2,0,0,0", hmap=1, init=4, min_partition_order=0, prog0=prog((K_RESIZE, 1)),
                  prog1=prog((K_LOOKUP, 1), (K_WALKALL, 0)), prog2=prog((K_DEL, 0)), **TWO))
    # lazy (chain length) resize by the worker thread while operations run
    lz = dict(flags=1, hmap=4, init=1, ninit=3, init_keys=0x210)    # hashes 1,3,5 in one bucket: the 4th distinct hash (key 3) queues a lazy grow
    J.append(conc("2,0,0,0" if q else "3,0,0,0", prog0=prog((K_ADD, 3)), prog1=prog((K_LOOKUP, 0), (K_WALKALL, 0)), **lz))
    J.append(conc("2,0,0,0", prog0=prog((K_ADD, 3), (K_DEL, 1)), prog1=prog((K_LOOKUP, 1), (K_LOOKUP, 2)), **lz))
    J.append(conc("1,1,0,0", prog0=prog((K_ADD, 3)), prog1=prog((K_LOOKUP, 0), (K_WALKALL, 0)), settle_end=0, **lz))
    # overlapping resize requests (the target changes while a resize runs): lazy grow + explicit resize, two explicit resizers; lookups meanwhile
    J.append(conc("1,0,0,0" if q else "2,0,0,0", workers=16, prog0=prog((K_ADD, 3)), prog1=prog((K_RESIZE, 8)), prog2=prog((K_LOOKUP, 0), (K_LOOKUP, 2)), **lz))
    J.append(conc("2,0,0,0", workers=16, hmap=1, init=2, prog0=prog((K_RESIZE, 8)), prog1=prog((K_RESIZE, 1)), prog2=prog((K_LOOKUP, 1), (K_LOOKUP, 0)), **TWO))
    # the table bound to real flavors (memb with sys_membarrier, bp without): same oracles, real grace periods
    # two adders that both request a lazy grow (both raise the resize target; the loser of the compare-and-swap must notice)
    J.append(conc("2,0,0,0", flags=1, hmap=4, init=1, ninit=3, init_keys=0x210, prog0=prog((K_ADD, 3)), prog1=prog((K_ADD, 3), (K_LOOKUP, 0))))
    J.append(conc_real("lfht_qsbr", {}, "1,0,0,0" if q else "2,0,0,0", hmap=0, enum=1, nenum=2, nops=1, **TWO))
    J.append(conc_real("lfht_qsbr", {}, "1,0,0,0" if q else "2,0,0,0", flags=1, hmap=4, init=1, ninit=3, init_keys=0x210, prog0=prog((K_ADD, 3)),
                       prog1=prog((K_DEL, 0), (K_LOOKUP, 1))))
    # qsbr: a count-driven lazy shrink is queued for the worker while another thread shrinks explicitly (the worker must not hold off
    # the grace period the mutex holder waits for)
    J.append(conc_real("lfht_qsbr", {}, "1,0,0,0", flags=3, hmap=1, count_commit_order=0, init=8, ninit=3, init_keys=0x210, prog0=prog((K_DEL, 0)),
                       prog1=prog((K_RESIZE, 2))))
    for b, env in REAL:
        deep = (not q) or b == "lfht_memb"
        J.append(conc_real(b, env, "2,0,0,0" if deep else "1,0,0,0", hmap=0, enum=1, nenum=2, nops=1, **TWO))
        J.append(conc_real(b, env, "1,1,0,0" if q else "2,1,0,0", hmap=2, init=2, enum=1, nenum=2, nops=1, **TWO))
        J.append(conc_real(b, env, "2,0,0,0" if deep else "1,0,0,0", hmap=2, init=2, enum=1, enum2=4, nenum=2, nops=1, **TWO))
        if not q:
            J.append(conc_real(b, env, "2,0,0,0", workers=16, hmap=0, enum=1, nenum=3, nops=1, **TWO))
    return J


LEVEL_TEXT = ("Exhaustive enumeration (within preemption / store-delay budgets) of the schedules of all small concurrent programs over an "
              "operation alphabet on the real rculfhash code, each complete history decided by a brute-force linearizability search "
              "plus an interval specification for traversals.")
LEVEL_NOTE = ("Trusted: specification flavor, x86-TSO, the set-of-nodes specification. Bounds: 2-3 program threads (+ resize actor or "
              "worker), 1-2 operations each, <=4 keys, tables of 1-8 buckets; quick P<=2 / P1D1, thorough P<=3 / P2D1.")
