from checks.lfht_common import *  # noqa
from checks import cross

PROP = "C09"
BUILDS = BUILDS + cross.gp_builds()   # cross-property core jobs (checks/cross.py)
RULE = ("(a) explicit-state enumeration of all sequences of length len over {add, del} x keys, resize(n) for every n in {0,1,2,3,4,5,8,16,"
        "ULONG_MAX,2^63,6,7} and destroy, for the order/chunk/mmap allocators and a recording custom allocator, incl. page-granular mmap "
        "tables of 64..2048 buckets: resize must return (a hang is a horizon/livelock verdict), contents are compared with the model after "
        "every step, 1 <= size <= max_nr_buckets, expected size reached, allocator balanced at destroy; counter-driven lazy requests piled up "
        "while the worker is never scheduled and drained at the end of the sequence (the worker must park again); (b) every schedule (preemption / "
        "store-delay / pthread_create-failure budget) of explicit resizes racing with lookups of resident keys, updates, a second "
        "resizer, the partitioned helper threads, lazy chain-length and counter-driven resizes by the worker, and destroy with a resize "
        "still queued; oracles: linearizability + resident-node interval rule, bucket bounds after every operation, use-after-free on "
        "bucket arrays, termination")
ASSUMPTIONS = ["specification flavor", "x86-TSO", "2 CPUs reported to the library (partition threads <= 2)"]
DEADLINE = {"quick": 170, "thorough": 1700}

TWO = dict(ninit=2, init_keys=0x10)


def jobs(tier):
    q = tier == "quick"
    J = []
    # (a) sequential: every requested size from every current size, sequences of resizes with content
    for mm, extra in ((0, {}), (1, dict(minb=2)), (2, {}), (0, dict(custom=1)), (1, dict(custom=1, minb=1, maxb=4))):
        J.append(seq(len=6 if q else 10, keys=2, hmap=1, alpha_seq=1, nresize=12, mm=mm, workers=8, **extra))
    J.append(seq(len=5 if q else 6, keys=2, hmap=1, alpha_seq=1, nresize=12, maxb=0, workers=8))          # unlimited order table
    J.append(seq(len=3 if q else 4, keys=1, hmap=1, alpha_seq=1, nresize=8, big=1, init=256, minb=1, maxb=1024, mm=2, workers=8,
                 horizon=400000))
    J.append(seq(len=3, keys=1, hmap=1, alpha_seq=1, nresize=8, big=1, init=64, minb=64, maxb=2048, mm=2, workers=8, horizon=800000))
    J.append(seq(len=3, keys=1, hmap=1, alpha_seq=1, nresize=8, big=1, init=64, minb=16, maxb=512, mm=1, workers=8, horizon=400000))
    # chunk allocator with more than 1024 chunks requested (max / min > MAX_CHUNK_TABLE): the chunk size must be enlarged
    J.append(seq(len=2, keys=1, hmap=1, alpha_seq=1, nresize=8, big=1, init=64, minb=1, maxb=2048, mm=1, workers=8, horizon=3000000))
    J.append(seq(len=2, keys=1, hmap=1, alpha_seq=1, nresize=8, big=1, init=64, minb=2, maxb=2048, mm=1, custom=1, workers=8, horizon=3000000))
    J.append(seq(len=4 if q else 5, keys=4, hmap=1, alpha_seq=1, nresize=12, min_partition_order=0, workers=8))   # partitioned
    J.append(seq("0,0,1,0", len=3 if q else 4, keys=2, hmap=1, alpha_seq=1, nresize=12, min_partition_order=0, pthread_create_eagain=1,
                 workers=8))
    J.append(seq(len=6, keys=4, hmap=1, alpha_seq=1, nresize=12, flags=1, workers=8))                           # lazy + explicit
    J.append(seq("1,0,0,0", len=4, keys=4, hmap=1, alpha_seq=1, nresize=12, flags=1, workers=8))
    for mx in (1, 2, 4):   # lazy growth must stop at max_nr_buckets
        J.append(seq(len=6, keys=4, hmap=1, alpha_seq=1, nresize=3, flags=1, maxb=mx, workers=8))
        J.append(seq(len=9, keys=1, hmap=0, alpha_seq=1, nresize=2, flags=3, count_commit_order=0, maxb=mx, workers=8))
    # lazy grow / shrink arbitration with the worker never scheduled (targets pile up while size stays put)
    J.append(seq(len=9 if q else 10, keys=1, hmap=0, alpha_seq=1, nresize=2, flags=3, count_commit_order=0, init=8, nosettle=1, workers=8))
    J.append(seq(len=8, keys=2, hmap=1, alpha_seq=1, nresize=4, flags=3, count_commit_order=0, init=4, nosettle=1, workers=8))
    J.append(seq("1,0,0,0", len=4, keys=2, hmap=1, alpha_seq=1, nresize=6, flags=3, count_commit_order=0, workers=8))
    # ... and finally scheduled at the end of the sequence: whatever target the unserved counter-driven requests left behind (e.g. a
    # count that stepped over a power of two), the worker's resize terminates and leaves a consistent table
    for mx in (16, 0):
        J.append(seq(len=10, keys=1, hmap=0, alpha_seq=1, nresize=2, flags=3, count_commit_order=0, init=1, nosettle=2, maxb=mx, workers=4))
    # (b) concurrent
    rd = prog((K_LOOKUP, 0), (K_LOOKUP, 1), (K_WALKALL, 0))
    for init, n in ((1, 4), (1, 3), (2, 8), (4, 1), (4, 2), (8, 0), (2, 5)):
        J.append(conc("2,0,0,0" if q else "3,0,0,0", hmap=1, init=init, prog0=prog((K_RESIZE, n)), prog1=rd, **TWO))
    J.append(conc("1,1,0,0" if q else "2,1,0,0", hmap=1, init=1, prog0=prog((K_RESIZE, 4)), prog1=rd, **TWO))
    J.append(conc("1,1,0,0" if q else "2,1,0,0", hmap=1, init=4, prog0=prog((K_RESIZE, 1)), prog1=rd, **TWO))
    for mm in (1, 2):
        J.append(conc("2,0,0,0", hmap=1, init=2, mm=mm, prog0=prog((K_RESIZE, 8), (K_RESIZE, 1)), prog1=rd, **TWO))
    # two resizers with different targets + reader; resize + updater + reader
    J.append(conc("2,0,0,0", workers=16, hmap=1, init=2, prog0=prog((K_RESIZE, 4)), prog1=prog((K_RESIZE, 1)), prog2=rd, **TWO))
    J.append(conc("2,0,0,0", workers=16, hmap=1, init=2, prog0=prog((K_RESIZE, 4), (K_RESIZE, 1)), prog1=prog((K_ADD, 2), (K_DEL, 0)),
                  prog2=prog((K_LOOKUP, 1), (K_WALKALL, 0)), **TWO))
    # partitioned path with helper threads, incl. pthread_create failing
    J.append(conc("1,0,0,0" if q else "2,0,0,0", workers=16, hmap=1, init=1, min_partition_order=0, prog0=prog((K_RESIZE, 4)), prog1=rd, **TWO))
    J.append(conc("1,0,0,0" if q else "2,0,0,0", workers=16, hmap=1, init=4, min_partition_order=0, prog0=prog((K_RESIZE, 1)), prog1=rd, **TWO))
    J.append(conc("1,0,1,0", workers=16, hmap=1, init=1, min_partition_order=0, pthread_create_eagain=1, prog0=prog((K_RESIZE, 4)),
                  prog1=prog((K_LOOKUP, 1)), **TWO))
    # lazy resizes racing with explicit ones and with destroy
    lz = dict(flags=1, hmap=4, init=1, ninit=3, init_keys=0x210)    # hashes 1,3,5 in one bucket: the 4th distinct hash (key 3) queues a lazy grow
    J.append(conc("2,0,0,0", prog0=prog((K_ADD, 3)), prog1=prog((K_RESIZE, 1)), prog2=prog((K_LOOKUP, 0), (K_LOOKUP, 2)), **lz))
    J.append(conc("2,0,0,0", prog0=prog((K_ADD, 3), (K_DEL, 3), (K_DEL, 2), (K_DEL, 1), (K_DEL, 0)), final_destroy=1, settle_end=0, **lz))
    J.append(conc("2,0,0,0", maxb=2, prog0=prog((K_ADD, 3)), prog1=prog((K_LOOKUP, 0), (K_WALKALL, 0)), **lz))
    J.append(conc("2,0,0,0", flags=3, hmap=1, count_commit_order=0, ninit=1, init_keys=0, prog0=prog((K_ADD, 1), (K_ADD, 2)),
                  prog1=prog((K_LOOKUP, 0), (K_WALKALL, 0))))
    # partitioned resize with more helper threads than the default two CPUs give (4 CPUs: every level of 4+ buckets is split in four);
    # two operations only: every partitioned level creates four threads and vrt runs at most 16 per execution
    J.append(Job("lfht", "seq", "0,0,0,0", dict(len=2, keys=4, hmap=1, alpha_seq=1, nresize=12, min_partition_order=0),
                 {"VRT_NCPUS": 4}, workers=8))
    J.append(Job("lfht", "seq", "0,0,0,0", dict(len=2, keys=4, hmap=1, alpha_seq=1, nresize=12, min_partition_order=0, big=1),
                 {"VRT_NCPUS": 3}, workers=8))
    # two adders that both request a lazy grow (both raise the resize target; the loser of the compare-and-swap must notice)
    J.append(conc("2,0,0,0", flags=1, hmap=4, init=1, ninit=3, init_keys=0x210, prog0=prog((K_ADD, 3)), prog1=prog((K_ADD, 3), (K_LOOKUP, 0))))
    J.append(conc_real("lfht_qsbr", {}, "1,0,0,0" if q else "2,0,0,0", hmap=1, init=4, prog0=prog((K_RESIZE, 1)), prog1=rd, **TWO))
    J.append(conc_real("lfht_qsbr", {}, "1,0,0,0" if q else "2,0,0,0", flags=1, hmap=4, init=1, ninit=3, init_keys=0x210, prog0=prog((K_ADD, 3)),
                       prog1=prog((K_DEL, 0), (K_LOOKUP, 1))))
    # qsbr: a count-driven lazy shrink is queued for the worker while another thread shrinks explicitly (the worker must not hold off
    # the grace period the mutex holder waits for)
    J.append(conc_real("lfht_qsbr", {}, "1,0,0,0", flags=3, hmap=1, count_commit_order=0, init=8, ninit=3, init_keys=0x210, prog0=prog((K_DEL, 0)),
                       prog1=prog((K_RESIZE, 2))))
    for b, env in REAL:
        rp = dict(qs_attempts=1, wait_attempts=1)
        J.append(Job(b, "seq", "0,0,0,0", dict(rp, len=5 if q else 6, keys=2, hmap=1, alpha_seq=1, nresize=12), env, workers=8))
        J.append(Job(b, "seq", "1,0,0,0", dict(rp, len=4, keys=4, hmap=1, alpha_seq=1, nresize=6, flags=1, maxb=2), env, workers=8))
        J.append(conc_real(b, env, "2,0,0,0", hmap=1, init=4, prog0=prog((K_RESIZE, 1)), prog1=rd, **TWO))
        J.append(conc_real(b, env, "1,0,0,0" if q else "2,0,0,0", workers=16, hmap=1, init=1, min_partition_order=0, prog0=prog((K_RESIZE, 4)),
                           prog1=rd, **TWO))
    # the components this property's guarantee is built on, on the real code (checks/cross.py)
    J += cross.gp_core(tier)
    return J


def extra(results):
    pruned = sum(r[3].get("pruned", 0) for r in results if r[3])
    execs = sum(r[3].get("executions", 0) for r in results if r[3])
    # for the sequence enumeration a case is non-trivial when it was executed to its full depth (not cut at a known state)
    return {"pruned_at_expanded_state": pruned, "distinct_nontrivial": execs - pruned}


TECHNIQUE = ("explicit-state enumeration of all resize/update sequences up to a depth on the real code, plus stateless preemption-bounded "
             "model checking of resizes racing with operations under a controlled scheduler with x86-TSO store buffers")
LEVEL_TEXT = ("All resize/update sequences up to a depth for every allocator (sequential), and all schedules within budgets of resizes racing "
              "with readers, updaters, other resizers, partition helper threads and the lazy-resize worker (concurrent), on the real code.")
LEVEL_NOTE = ("Trusted: specification flavor, x86-TSO. Bounds: sequences of length 6 (quick) / 8 (thorough) on tables of 1-16 buckets, length 3-4 "
              "on page-granular tables of 64-2048 buckets; concurrent scenarios 2-4 threads, P<=2 / P1D1 / F1 quick, P<=3 / P2D1 thorough.")
