"""Cross-property core jobs.

Most properties are stated on top of other components: "after a grace period" (C03, C04, C07, C09, C12, C13, C14, C16, C18) stands on
synchronize_rcu and reader registration; polling and the lock-free queue's dummy reclamation stand on call_rcu; call_rcu and polling
survive fork() only through the call_rcu fork handlers; bp's signal safety is what keeps its grace periods and fork handlers live.
A change inside such a component breaks the dependent property as well, although its own harness (which takes the component's
guarantee as an assumption - the specification flavor) cannot see it.  Each dependent check therefore re-runs a small core of the
component's own scenarios on the real code: the jobs below, chosen as the ones that decided most seeded changes of the component.
Builds are prefixed with "x" so that they never collide with a check's own builds."""
from checks.common import Build, Job

P1 = {"qs_attempts": 1, "wait_attempts": 1, "yield_in_section": 1}
P0 = {"qs_attempts": 1, "wait_attempts": 1}
GP_ENV = {"memb": {"VRT_MEMBARRIER": 2}, "mb": {}, "qsbr": {}, "bp": {"VRT_MEMBARRIER": 2}}


def gp_builds(flavors=("memb", "mb", "qsbr", "bp")):
    return [Build("xgp_" + f, "harness/c01_gp.c", flavor=f, whitebox=True) for f in flavors]


def gp_core(tier):
    """grace-period guarantee, merged callers, registration during a grace period (C01 / C02 / C15 core)"""
    J = []
    for f, env in GP_ENV.items():
        b = "xgp_" + f
        J.append(Job(b, "basic", "2,1,0,0", P1, env, workers=8))
        J.append(Job(b, "late_register", "2,0,0,0", dict(P0, init_reader_count=2) if f == "bp" else P0, env, workers=8))
    J.append(Job("xgp_qsbr", "merged", "2,0,0,0", dict(P1, upd_registered=1), {}, workers=8))
    J.append(Job("xgp_qsbr", "qsbr", "2,0,0,0", dict(P1, updater_registered=1), {}, workers=8))
    J.append(Job("xgp_bp", "two_gp", "2,1,0,0", P1, GP_ENV["bp"], workers=8))
    J.append(Job("xgp_memb", "three_callers", "1,0,0,0", P1, GP_ENV["memb"], workers=8))
    J.append(Job("xgp_mb", "merged", "2,0,0,0", P1, {}, workers=8))
    return J


def sig_core(tier, flavors=("bp", "memb")):
    """signals against bp registration / grace periods / fork handlers, EINTR and ENOSYS in the grace-period futex (C19 core)"""
    J = []
    if "bp" in flavors:
        env = GP_ENV["bp"]
        J.append(Job("xgp_bp", "sig", "1,0,0,1", dict(P0, target=2, main_registered=0, init_reader_count=2), env, workers=8))
        J.append(Job("xgp_bp", "sig", "1,0,0,1", dict(P0, target=2, main_registered=0, forkh=1), env, workers=8))
        J.append(Job("xgp_bp", "sig", "1,0,0,1", dict(P0, target=1, main_registered=1), env, workers=8))
        for follow in (0, 1):
            J.append(Job("xgp_bp", "sig_fork", "1,0,0,1", dict(P0, fork_follow=follow, main_registered=0), env, workers=4))
    if "memb" in flavors:
        env = GP_ENV["memb"]
        J.append(Job("xgp_memb", "sig", "1,0,1,1", dict(P0, target=2), env, workers=8))
        J.append(Job("xgp_memb", "sig", "1,0,0,1", dict(P0, target=3), env, workers=8))
    return J


def fork_builds(flavors=("memb", "bp")):
    return [Build("xfk_" + f, "harness/c16_fork.c", flavor=f, cds=True, whitebox=(f == "bp")) for f in flavors]


def fork_core(tier, flavors=("memb", "bp")):
    """fork bracketed by the documented handlers with default / per-thread / per-CPU helpers, queued callbacks, a pre-fork table (C16 core)"""
    J = []
    for f in flavors:
        b, env = "xfk_" + f, GP_ENV[f]
        for follow in (0, 1):
            p = dict(P0, fork_follow=follow)
            J.append(Job(b, "fork", "1,0,0,0,0", p, env, workers=8))
            J.append(Job(b, "fork", "1,0,0,0,0", dict(p, helpers=1), env, workers=8))
            J.append(Job(b, "fork", "0,0,0,0,0", dict(p, helpers=2), env, workers=4))
            J.append(Job(b, "fork", "0,0,0,0,0", dict(p, pre_lfht=1, ncb=0), env, workers=4))
        if f == "bp":
            J.append(Job(b, "fork", "1,0,0,0,0", dict(P0, fork_follow=0, readers=2, init_reader_count=2), env, workers=8))
    return J


def callrcu_builds():
    return [Build("xcr_spec", "harness/c03_callrcu.c", flavor="spec")]


def callrcu_core(tier):
    """call_rcu: grace period before invocation, exactly once, helper teardown hand-over, rcu_barrier (C03 / C04 core)"""
    S = "xcr_spec"
    return [Job(S, "default", "2,0,0,0", workers=8), Job(S, "default", "1,1,0,0", workers=8),
            Job(S, "free_pending", "1,0,0,0", workers=8), Job(S, "per_thread", "1,0,0,0", workers=8),
            Job(S, "barrier", "1,0,0,0", {"reader": 1}, workers=8), Job(S, "reenqueue", "1,0,0,0", workers=8),
            Job(S, "during_gp", "1,0,0,0", workers=8)]


def defer_builds():
    return [Build("xdf_spec", "harness/c13_defer.c", flavor="spec")]


def defer_core(tier):
    """defer_rcu: grace period before invocation, exactly once and in order under the reclaimer (C13 core)"""
    p8 = {"defer_queue_size": 8}
    S = "xdf_spec"
    return [Job(S, "late_reader", "2,0,0,0", p8, workers=8), Job(S, "background", "2,0,0,0", p8, workers=8),
            Job(S, "barrier", "2,0,0,0", p8, workers=8), Job(S, "wrap", "2,0,0,0", dict(p8, n=7), workers=8)]


def poll_builds():
    return [Build("xpo_spec", "harness/c14_poll.c", flavor="spec")]


def poll_core(tier):
    """grace-period polling: a handle never completes early, also when taken while another grace period is in flight (C14 core)"""
    S = "xpo_spec"
    return [Job(S, "one", "2,0,0,0", workers=8), Job(S, "inflight", "1,0,0,0", workers=8), Job(S, "two", "1,0,0,0,1", workers=8),
            Job(S, "three", "1,0,0,0", workers=8)]
