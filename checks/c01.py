from checks.common import Build, Job
from checks import cross

PROP = "C01"
FLAVORS = ["memb", "mb", "qsbr", "bp"]
BUILDS = [Build("gp_" + f, "harness/c01_gp.c", flavor=f) for f in FLAVORS]
# flavor configurations: (build, env) - memb and bp with sys_membarrier available / unavailable
CONFIGS = [("gp_memb", {"VRT_MEMBARRIER": 2}), ("gp_memb", {"VRT_MEMBARRIER": 0}), ("gp_mb", {}),
           ("gp_qsbr", {}), ("gp_bp", {"VRT_MEMBARRIER": 2}), ("gp_bp", {"VRT_MEMBARRIER": 0})]
BUILDS = BUILDS + cross.fork_builds(("bp",))   # cross-property core jobs (checks/cross.py)
RULE = ("every schedule within the preemption / x86-TSO store-delay budget of each reader/updater scenario is executed on the "
        "real flavor code (6 flavor configurations, spin bounds 1 and 2); oracles: litmus (post-GP store seen implies pre-GP "
        "store seen), real-time interval (no synchronize_rcu returns inside a section that began before its call), "
        "reclamation (no access to a freed object); non-trivial = executions with inter-thread communication")
ASSUMPTIONS = ["x86-TSO; sys_membarrier modelled as draining every thread's store buffer",
               "bounds: <=2 readers, nesting <=2, <=2 updaters, budgets per job", "vrt futex/mutex models"]
DEADLINE = {"quick": 170, "thorough": 1700}


def scen_for(build):
    s = ["basic", "two_gp", "pointer"]
    if build != "gp_qsbr":
        s.append("nested")
    else:
        s.append("qsbr")
    return s


def jobs(tier):
    J = []
    q = tier == "quick"
    for (b, env) in CONFIGS:
        p1 = {"qs_attempts": 1, "wait_attempts": 1, "yield_in_section": 1}
        p2 = {"qs_attempts": 2, "wait_attempts": 2, "yield_in_section": 1}
        p0 = {"qs_attempts": 1, "wait_attempts": 1}
        main = "qsbr" if b == "gp_qsbr" else "nested"
        J.append(Job(b, "basic", "3,1,0,0", p1, env, workers=8))
        J.append(Job(b, "basic", "2,1,0,0", p2, env))
        J.append(Job(b, "basic", "2,1,0,0", p0, env))
        J.append(Job(b, "two_gp", "2,1,0,0", p1, env))
        J.append(Job(b, "pointer", "2,1,0,0", p1, env))
        J.append(Job(b, "pointer", "2,0,0,0", dict(p2, second=1), env))
        J.append(Job(b, main, "2,1,0,0", p1, env))
        J.append(Job(b, "two_readers", "2,0,0,0", p1, env))
        J.append(Job(b, "merged", "2,0,0,0", p1, env))
        J.append(Job(b, "late_register", "2,0,0,0" if q else "3,0,0,0", p1, env))      # reader registered during the previous grace period
        if b == "gp_qsbr" or (not q and b != "gp_bp"):
            J.append(Job(b, "merged", "2,0,0,0", dict(p1, upd_registered=1), env))
            J.append(Job(b, "three_callers", "1,0,0,0", dict(p1, upd_registered=1), env))
        elif b == "gp_mb":
            J.append(Job(b, "merged", "1,0,0,0", dict(p1, upd_registered=1), env))
        if b == "gp_qsbr":
            for ur in (1, 2):
                J.append(Job(b, "qsbr", "2,0,0,0", dict(p1, updater_registered=ur), env))
                J.append(Job(b, "basic", "2,1,0,0", dict(p1, updater_registered=ur), env))
        if not q:
            J.append(Job(b, "basic", "4,1,0,0", p1, env, workers=16))
            J.append(Job(b, "basic", "3,2,0,0", p1, env, workers=16))
            J.append(Job(b, "basic", "3,1,0,0", p2, env, workers=16))
            J.append(Job(b, "two_gp", "3,1,0,0", p1, env, workers=16))
            J.append(Job(b, "two_gp", "3,1,0,0", p2, env, workers=16))
            J.append(Job(b, "pointer", "3,1,0,0", dict(p1, second=1), env, workers=16))
            J.append(Job(b, main, "3,1,0,0", p1, env, workers=16))
            J.append(Job(b, "two_readers", "2,1,0,0", p1, env, workers=16))
            J.append(Job(b, "merged", "2,1,0,0", p1, env, workers=16))
            J.append(Job(b, "merged", "3,0,0,0", p1, env, workers=16))
    # membarrier(2) offering only the SHARED command: the library must fall back to the slave barriers
    p1 = {"qs_attempts": 1, "wait_attempts": 1, "yield_in_section": 1}
    for b in ("gp_memb", "gp_bp"):
        J.append(Job(b, "basic", "2,1,0,0", p1, {"VRT_MEMBARRIER": 1}))
        J.append(Job(b, "nested", "2,1,0,0", p1, {"VRT_MEMBARRIER": 1}))
    # the components this property's guarantee is built on, on the real code (checks/cross.py)
    J += cross.fork_core(tier, ("bp",))
    return J


LEVEL_TEXT = ("Exhaustive enumeration of schedules and x86-TSO store-buffer delays (within budgets) of reader/updater scenarios "
              "running the real synchronize_rcu()/read-side code of all four flavors, with litmus, interval and reclamation "
              "oracles evaluated on every execution.")
LEVEL_NOTE = ("Trusted: x86-TSO model (membarrier = drain all buffers), vrt scheduler/futex models. Bounds: <=2 readers, "
              "nesting 2, <=2 updaters, 2-thread scenarios P<=3 D<=1 quick and P<=4 D<=1 / P<=3 D<=2 thorough; 3-thread scenarios P<=2 quick, P<=3 or P2D1 thorough; 32-bit qsbr variant not built.")
