from checks.common import Build, Job
from checks import cross

PROP = "C13"
BUILDS = [Build("df_spec", "harness/c13_defer.c", flavor="spec"),
          Build("df_spec_wb", "harness/c13_defer.c", flavor="spec", whitebox=True),
          Build("df_memb", "harness/c13_defer.c", flavor="memb"),
          Build("df_qsbr", "harness/c13_defer.c", flavor="qsbr")]
BUILDS = BUILDS + cross.gp_builds()   # cross-property core jobs (checks/cross.py)
RULE = ("(a) every operation sequence of length len over {defer_rcu(f,p) for 3 functions (one at an odd address) x 4 argument "
        "patterns (aligned, low bit set, the internal marker value, NULL), rcu_defer_barrier, rcu_defer_barrier_thread, unregister+register} with a "
        "queue of 8 slots (wrap-around and self-flush reached) is executed on the real urcu-defer-impl.h, the invocation log "
        "compared with the queued log after every barrier/unregister; (b) every schedule (preemption / TSO-delay / futex-fault "
        "budget) of owner || reclaimer || reader || third-party barrier || second owner (also: registering while the last owner unregisters and the reclaimer is being stopped) scenarios with exactly-once, order, "
        "exact-argument, grace-period and termination oracles")
ASSUMPTIONS = ["specification flavor (C01 as assumption) for the deep tier, real memb/qsbr shallower", "x86-TSO", "vrt futex model",
               "a function pointer equal to the marker value cannot exist; functions with odd addresses are exercised"]
DEADLINE = {"quick": 170, "thorough": 1700}


def jobs(tier):
    J = []
    q = tier == "quick"
    S = "df_spec"
    p8 = {"defer_queue_size": 8}
    J.append(Job(S, "seq", "0,0,0,0", dict(p8, len=4 if q else 5), workers=16))
    J.append(Job(S, "seq", "1,0,0,0", dict(p8, len=2 if q else 3), workers=8))
    J.append(Job(S, "seq", "0,0,0,0", {"defer_queue_size": 16, "len": 3}, workers=8))
    # non-initial start state: queue indices a few slots before the wrap-around of the unsigned long counters
    for sid in (-3, -6):
        J.append(Job("df_spec_wb", "seq", "0,0,0,0", dict(p8, len=3 if q else 4, start_idx=sid), workers=8))
    J.append(Job(S, "background", "2,0,0,0" if q else "3,0,0,0", p8, workers=8))
    J.append(Job(S, "background", "1,1,0,0" if q else "2,1,0,0", p8, workers=8))
    J.append(Job(S, "background", "1,0,1,0" if q else "2,0,1,0", p8, workers=8))
    J.append(Job(S, "barrier", "2,0,0,0" if q else "3,0,0,0", p8, workers=8))
    J.append(Job(S, "barrier", "1,1,0,0" if q else "2,1,0,0", p8, workers=8))
    # P=2: the reclaimer has to be switched in, and out again in the middle of its drain, while the owner self-flushes
    J.append(Job(S, "wrap", "2,0,0,0" if q else "3,0,0,0", dict(p8, n=7), workers=8))
    J.append(Job(S, "wrap", "1,1,0,0", dict(p8, n=5), workers=8))
    J.append(Job(S, "late_reader", "2,0,0,0" if q else "3,0,0,0", p8, workers=8))
    J.append(Job(S, "late_reader", "1,1,0,0", p8, workers=8))
    J.append(Job(S, "late_reader", "1,0,0,0" if q else "2,0,0,0", dict(p8, third_party=1), workers=8))
    J.append(Job(S, "rereg_race", "2,0,0,0" if q else "3,0,0,0", dict(p8, two_owners=1), workers=8))
    J.append(Job(S, "rereg_race", "2,0,0,0" if q else "3,0,0,0", dict(p8, two_owners=1, pending=1), workers=8))
    J.append(Job(S, "rereg_race", "1,1,0,0", dict(p8, two_owners=1), workers=8))
    J.append(Job(S, "rereg_race", "1,0,1,0", dict(p8, two_owners=1), workers=8))
    J.append(Job(S, "two_owners", "1,0,0,0" if q else "2,0,0,0", dict(p8, two_owners=1), workers=8))
    J.append(Job(S, "two_owners", "1,0,0,0" if q else "2,0,0,0", dict(p8, two_owners=1, barrier_thread=1), workers=8))
    for b, env in (("df_memb", {"VRT_MEMBARRIER": 2}), ("df_qsbr", {})):
        p = dict(p8, qs_attempts=1, wait_attempts=1)
        J.append(Job(b, "background", "1,0,0,0" if q else "2,0,0,0", p, env, workers=8))
        J.append(Job(b, "barrier", "1,0,0,0" if q else "2,0,0,0", p, env, workers=8))
        J.append(Job(b, "late_reader", "1,0,0,0" if q else "2,0,0,0", p, env, workers=8))
        J.append(Job(b, "seq", "0,0,0,0", dict(p, len=2 if q else 3), env, workers=8))
    # the components this property's guarantee is built on, on the real code (checks/cross.py)
    J += cross.gp_core(tier)
    return J


LEVEL_TEXT = ("Exhaustive enumeration of (a) all operation sequences up to a depth against a log-equality reference and (b) all "
              "schedules/store delays/futex faults within budgets of concurrent scenarios, on the real defer_rcu implementation.")
LEVEL_NOTE = ("Trusted: specification flavor, x86-TSO, futex model. Bounds: sequences of length <=4 (quick) / <=5 (thorough) at queue "
              "size 8; concurrent scenarios <=4 threads, P<=2 / P1D1 / P1F1 quick.")
