from checks.common import Build, Job

PROP = "C11"
BUILDS = [Build("c11", "harness/c11_stack.c", extra_repo=["lfstack.c", "rculfstack.c"])]
RULE = ("every schedule (preemption-bounded, plus x86-TSO store delays) of push/pop/pop_all scenarios on the real cds_wfs, cds_lfs "
        "and cds_lfs_rcu code, for the mutex, single-consumer and RCU synchronisation schemes (RCU = specification flavor: "
        "synchronize may return as early as the specification allows); each history is checked by brute-force "
        "linearizability search against a LIFO specification incl. push 'was non-empty', LAST state, empty(), pop_all order; "
        "plus conservation and WOULDBLOCK legality; ABA scenario recycles a node through a grace period")
ASSUMPTIONS = ["x86-TSO", "specification RCU flavor faithfully states C01's guarantee", "<=3 threads, <=4 nodes"]
DEADLINE = {"quick": 120, "thorough": 1500}
# (kind, sync) combinations that the API documents
COMBOS = [(0, 0), (0, 1), (0, 2), (1, 0), (1, 1), (1, 2), (2, 2)]


def jobs(tier):
    J = []
    q = tier == "quick"
    for (k, s) in COMBOS:
        p = {"kind": k, "sync": s}
        J.append(Job("c11", "pp", "3,0,0,0" if q else "4,0,0,0", p))
        J.append(Job("c11", "pp", "2,1,0,0" if q else "3,1,0,0", p))
        J.append(Job("c11", "last", "3,0,0,0", p))
        J.append(Job("c11", "last", "2,1,0,0", p))
        if s != 1:
            J.append(Job("c11", "pop2", "3,0,0,0" if q else "4,0,0,0", p))
            J.append(Job("c11", "pop2", "2,1,0,0" if q else "3,1,0,0", p))
        if k != 2:
            J.append(Job("c11", "popall", "3,0,0,0" if q else "4,0,0,0", p))
            J.append(Job("c11", "popall", "2,1,0,0" if q else "3,1,0,0", p))
        if s == 0 and k != 2:
            J.append(Job("c11", "repush", "3,0,0,0" if q else "4,0,0,0", p))
            J.append(Job("c11", "repush", "2,1,0,0", p))
        if s == 2:
            J.append(Job("c11", "aba", "3,0,0,0" if q else "4,0,0,0", p))
            J.append(Job("c11", "aba", "2,1,0,0", p))
    # the other exported entry points: variants without state, caller-held pop mutex (cds_*_pop_lock / unlock)
    for (k, s, a) in ((0, 0, 1), (0, 0, 2), (0, 1, 1), (1, 0, 2)):
        p = {"kind": k, "sync": s, "api2": a}
        J.append(Job("c11", "pop2" if s == 0 else "pp", "2,0,0,0" if q else "3,0,0,0", p))
        J.append(Job("c11", "popall", "2,0,0,0" if q else "3,0,0,0", p))
        if s == 0:
            J.append(Job("c11", "repush", "2,0,0,0" if q else "3,0,0,0", p))
    # pop_all result walked with the non-blocking iterator while pushes are in flight
    for sy in (0, 1):
        J.append(Job("c11", "popall", "2,0,0,0" if q else "3,0,0,0", {"kind": 0, "sync": sy, "nb_iter": 1}))
        J.append(Job("c11", "popall", "1,1,0,0", {"kind": 0, "sync": sy, "nb_iter": 1}))
    J.append(Job("c11", "pp", "2,0,0,0", {"kind": 0, "sync": 1, "nonblocking": 1, "api2": 1}))
    J.append(Job("c11", "pp", "2,0,0,0", {"kind": 0, "sync": 1, "nonblocking": 1}))
    J.append(Job("c11", "last", "3,0,0,0", {"kind": 0, "sync": 1, "nonblocking": 1}))
    return J


LEVEL_TEXT = ("Exhaustive enumeration (within budgets) of the schedules of 5 scenarios over the real wfstack/lfstack/rculfstack code "
              "for every documented synchronisation scheme, each terminal history decided by a linearizability search against a "
              "LIFO specification.")
LEVEL_NOTE = ("Trusted: x86-TSO model, vrt mutex model, specification RCU flavor (assume-guarantee with C01). Bounds: <=3 "
              "threads, <=4 nodes, P<=2/3 + P1D1/P2D1 quick, P<=3/4 + P2D1 thorough.")
