from checks.common import Build, Job

PROP = "C08"
BUILDS = [Build("lfht", "harness/c05_lfht.c", flavor="spec", cds=True)]
RULE = "tbd"
ASSUMPTIONS = []
DEADLINE = {"quick": 170, "thorough": 1700}


def jobs(tier):
    return [Job("lfht", "seq", "0,0,0,0", {"len": 3, "keys": 2}, workers=16)]


LEVEL_TEXT = "tbd"
LEVEL_NOTE = "tbd"
