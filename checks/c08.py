from checks.lfht_common import *  # noqa

PROP = "C08"
RULE = ("explicit-state enumeration of ALL operation sequences of length len over the alphabet {add, add_unique, add_replace, replace "
        "first/second match, del first/second match, replace with a mismatching key} x keys, resize(n) for n in {0,1,2,3,4,5,8,16,"
        "ULONG_MAX,2^63,6,7} and destroy, executed by one thread on the real rculfhash code; after every step the full traversal, "
        "lookup + next_duplicate of every key, count_nodes (and the split counters), is_node_deleted, double-del / stale-iterator "
        "replace results and the bucket-count bounds are compared with a reference multimap; sequences are pruned at canonical states "
        "(traversal order of keys, size, resize target, counters, allocator balance, configuration) already expanded with at least "
        "as many remaining steps; configurations (init, min, max in {0,1,2,3/6,4,8}, flags in {0,AUTO_RESIZE,ACCOUNTING,both}, "
        "order/chunk/mmap/default allocator, recording custom cds_lfht_alloc) are enumerated as initial choices; AUTO_RESIZE tables "
        "additionally run with one preemption so the resize worker interleaves; a case is an executed sequence, non-trivial ones are "
        "those that were not cut at an already expanded state")
ASSUMPTIONS = ["canonical-state key distinguishes every state with different futures (errs on the fine side; 64-bit hash collisions ignored)",
               "specification flavor", "node identity is irrelevant to the table (fresh node per insertion)"]
DEADLINE = {"quick": 170, "thorough": 1700}


def jobs(tier):
    q = tier == "quick"
    J = []
    for hm in (2, 0, 3, 1):
        J.append(seq(len=8 if q else 12, keys=2, hmap=hm, workers=16))
        J.append(seq(len=6 if q else 8, keys=3 if hm != 1 else 4, hmap=hm, workers=16))
    # every allocator x flags x custom allocator (AUTO_RESIZE ones have a worker thread)
    J.append(seq(len=4 if q else 5, keys=2, hmap=2, mm=-1, flags=-1, custom=-1, workers=16))
    J.append(seq(len=4 if q else 5, keys=2, hmap=1, mm=-1, flags=-1, custom=0, init=2, minb=2, maxb=4, workers=16))
    # the whole parameter grid of cds_lfht_new (5760 combinations incl. rejected ones)
    J.append(seq(len=1 if q else 2, keys=2, hmap=2, init=-1, minb=-1, maxb=-1, flags=-1, mm=-1, custom=-1, workers=16))
    # chunk allocator with more than 1024 chunks requested (max / min > MAX_CHUNK_TABLE): the chunk size must be enlarged
    J.append(seq(len=2, keys=1, hmap=1, alpha_seq=1, nresize=8, big=1, init=64, minb=1, maxb=2048, mm=1, workers=8, horizon=3000000))
    J.append(seq(len=2, keys=1, hmap=1, alpha_seq=1, nresize=8, big=1, init=64, minb=2, maxb=2048, mm=1, custom=1, workers=8, horizon=3000000))
    # lazy resizes: chain-length driven and counter driven, worker interleaved (1 preemption)
    J.append(seq(len=6 if q else 7, keys=4, hmap=1, flags=1, nresize=3, workers=8))
    J.append(seq("1,0,0,0", len=4 if q else 5, keys=4, hmap=1, flags=1, nresize=3, workers=8))
    J.append(seq(len=6, keys=2, hmap=1, flags=3, count_commit_order=0, nresize=3, workers=8))
    J.append(seq(len=6 if q else 7, keys=4, hmap=1, flags=1, maxb=2, nresize=3, workers=8))
    # ... with the recording custom allocator (every block released through it must have come from it), per bucket allocator
    J.append(seq(len=4 if q else 5, keys=4, hmap=1, flags=1, custom=1, mm=-1, nresize=3, workers=8))
    J.append(seq(len=5, keys=2, hmap=1, flags=3, custom=1, count_commit_order=0, nresize=3, workers=8))
    # counter-driven resizing against a small maximum (one key, equal hashes: no chain-length growth interferes), and with the
    # resize worker never scheduled (queued lazy resizes stay pending while further operations arbitrate the target)
    for mx in (2, 4):
        J.append(seq(len=9 if q else 10, keys=1, hmap=0, alpha_seq=1, nresize=2, flags=3, count_commit_order=0, maxb=mx, workers=8))
    J.append(seq(len=9 if q else 10, keys=1, hmap=0, alpha_seq=1, nresize=2, flags=3, count_commit_order=0, init=8, nosettle=1, workers=8))
    J.append(seq(len=8, keys=2, hmap=1, alpha_seq=1, nresize=2, flags=3, count_commit_order=0, init=8, nosettle=1, workers=8))
    J.append(seq("1,0,0,0", len=4 if q else 5, keys=2, hmap=1, flags=3, count_commit_order=1, nresize=3, workers=8))
    # the same enumeration with the table bound to real flavors
    # partitioned resize with more helper threads than the default two CPUs give (4 CPUs: every level of 4+ buckets is split in four);
    # two operations only: every partitioned level creates four threads and vrt runs at most 16 per execution
    J.append(Job("lfht", "seq", "0,0,0,0", dict(len=2, keys=4, hmap=1, alpha_seq=1, nresize=12, min_partition_order=0),
                 {"VRT_NCPUS": 4}, workers=8))
    J.append(Job("lfht", "seq", "0,0,0,0", dict(len=2, keys=4, hmap=1, alpha_seq=1, nresize=12, min_partition_order=0, big=1),
                 {"VRT_NCPUS": 3}, workers=8))
    for b, env in REAL:
        rp = dict(qs_attempts=1, wait_attempts=1)
        J.append(Job(b, "seq", "0,0,0,0", dict(rp, len=5 if q else 6, keys=2, hmap=2, mm=-1, flags=-1), env, workers=8))
        J.append(Job(b, "seq", "1,0,0,0", dict(rp, len=4, keys=4, hmap=1, flags=1, nresize=3), env, workers=8))
    return J


def extra(results):
    pruned = sum(r[3].get("pruned", 0) for r in results if r[3])
    execs = sum(r[3].get("executions", 0) for r in results if r[3])
    # for the sequence enumeration a case is non-trivial when it was executed to its full depth (not cut at a known state)
    return {"pruned_at_expanded_state": pruned, "distinct_nontrivial": execs - pruned}


TECHNIQUE = ("explicit-state enumeration of all operation sequences up to a depth on the real code (state = history replayed on a fresh "
             "table, pruned at canonical states), every step compared with a reference multimap")
LEVEL_TEXT = ("Every operation sequence up to the stated depth, for every enumerated configuration, is executed on the real code and compared "
              "step by step with a reference multimap; exhaustive within the depth bound.")
LEVEL_NOTE = ("Trusted: the reference multimap, the canonical-state key used for pruning. Bounds: depth 8 (2 keys) / 6 (3-4 keys) quick, 12 / 8 "
              "thorough; configuration grid at depth 1 quick, 2 thorough; hashes from 4 adversarial maps (all equal, straddling a split, "
              "0 / ~0 / top bit only, distinct).")
