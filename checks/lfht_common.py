"""Shared definitions for the hash-table checks C05-C09 (harness/c05_lfht.c)."""
from checks.common import Build, Job

BUILDS = [Build("lfht", "harness/c05_lfht.c", flavor="spec", cds=True),
          Build("lfht_memb", "harness/c05_lfht.c", flavor="memb", cds=True),
          Build("lfht_bp", "harness/c05_lfht.c", flavor="bp", cds=True),
          Build("lfht_qsbr", "harness/c05_lfht.c", flavor="qsbr", cds=True)]
REAL = (("lfht_memb", {"VRT_MEMBARRIER": 2}), ("lfht_bp", {"VRT_MEMBARRIER": 0}))

# op bytes of the program interpreter in harness/c05_lfht.c
K_ADD, K_ADDU, K_ADDR, K_REPL, K_DEL, K_LOOKUP, K_WALKK, K_WALKALL, K_RESIZE, K_DELN, K_REPLN, K_COUNT = range(1, 13)


def prog(*ops):
    """ops: (kind, arg) pairs -> program parameter value"""
    v = 0
    for i, (k, a) in enumerate(ops):
        v |= ((k << 4) | a) << (8 * i)
    return v


def conc(budget, workers=8, **params):
    return Job("lfht", "conc", budget, params, workers=workers)


def conc_real(build, env, budget, workers=8, **params):
    params.setdefault("qs_attempts", 1)
    params.setdefault("wait_attempts", 1)
    return Job(build, "conc", budget, params, env, workers=workers)


def seq(budget="0,0,0,0", workers=8, horizon=None, **params):
    return Job("lfht", "seq", budget, params, workers=workers, horizon=horizon)
