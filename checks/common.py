"""Shared driver logic: build harnesses from the repo's current working tree, run exploration
jobs in parallel, aggregate evidence, report violations / known findings."""
import concurrent.futures as cf
import hashlib
import json
import os
import re
import shutil
import subprocess
import sys
import threading
import time

VERIF = os.path.dirname(os.path.dirname(os.path.abspath(__file__)))
REPO = os.environ.get("VERIF_REPO", "/repo")
NCPU = int(os.environ.get("VERIF_CORES", "16"))
COVMAP = bool(os.environ.get("VERIF_COVMAP"))

COMMON_SRCS = ["wfcqueue.c", "wfqueue.c", "wfstack.c", "compat_arch.c", "compat_futex.c"]
CDS_SRCS = ["rculfqueue.c", "rculfstack.c", "lfstack.c", "workqueue.c", "rculfhash.c",
            "rculfhash-mm-order.c", "rculfhash-mm-chunk.c", "rculfhash-mm-mmap.c"]
FLAVOR_SRCS = {
    "memb": (["urcu.c", "urcu-pointer.c"], ["-DRCU_MEMBARRIER"]),
    "mb": (["urcu.c", "urcu-pointer.c"], ["-DRCU_MB"]),
    "qsbr": (["urcu-qsbr.c", "urcu-pointer.c"], ["-DRCU_QSBR"]),
    "bp": (["urcu-bp.c", "urcu-pointer.c"], []),
    None: ([], []),
    "spec": (["urcu-pointer.c"], []),   # specification flavor: vrt/vflavor_spec.c + generated headers
}
HOOK_DEFS = [
    "-DURCU_VERIF",
    "-DURCU_VERIF_RCU_QS_ACTIVE_ATTEMPTS=vrt_param_qs_attempts",
    "-DURCU_VERIF_URCU_WAIT_ATTEMPTS=vrt_param_wait_attempts",
    "-DURCU_VERIF_DEFER_QUEUE_SIZE=vrt_param_defer_queue_size",
    "-DURCU_VERIF_MIN_PARTITION_PER_THREAD_ORDER=vrt_param_min_partition_order",
    "-DURCU_VERIF_COUNT_COMMIT_ORDER=vrt_param_count_commit_order",
    "-DURCU_VERIF_INIT_READER_COUNT=vrt_param_init_reader_count",
    "-DURCU_VERIF_SET_AFFINITY_CHECK_PERIOD=((unsigned int)vrt_param_affinity_period)",
]


class Build:
    def __init__(self, name, harness, flavor=None, cds=False, defines=(), extra_repo=(), native=False,
                 builtins=False, whitebox=False):
        self.name, self.harness, self.flavor, self.cds = name, harness, flavor, cds
        self.defines, self.extra_repo, self.native, self.builtins = list(defines), list(extra_repo), native, builtins
        # whitebox: the harness #includes the flavor's main source file (access to its static registry)
        self.whitebox = whitebox
        if whitebox:
            self.defines.append("-DGP_WHITEBOX")


class Job:
    def __init__(self, build, scenario, budget="2,0,0,0", params=None, env=None, workers=4, deadline=None,
                 horizon=None, tag=""):
        self.build, self.scenario, self.budget = build, scenario, budget
        self.params, self.env, self.workers = dict(params or {}), dict(env or {}), workers
        self.deadline, self.horizon, self.tag = deadline, horizon, tag

    def label(self):
        p = ",".join("%s=%s" % kv for kv in sorted(self.params.items()))
        e = ",".join("%s=%s" % kv for kv in sorted(self.env.items()))
        return "%s/%s[%s]{%s}{%s}" % (self.build, self.scenario, self.budget, p, e)


def sh(cmd, **kw):
    return subprocess.run(cmd, stdout=subprocess.PIPE, stderr=subprocess.STDOUT, text=True, **kw)


def ensure_repo_config():
    """include/config.h and include/urcu/config.h are configure outputs; they exist in the working
    tree.  If a fresh clone lacks them, fail loudly (the pinned build always has them)."""
    for f in ("include/config.h", "include/urcu/config.h"):
        if not os.path.exists(os.path.join(REPO, f)):
            print("INTERNAL: %s/%s missing (run ./configure in the repo)" % (REPO, f))
            sys.exit(2)


def compile_all(bdir, builds):
    """Compile the runtime once and every build's objects; returns {build name: binary path}."""
    ensure_repo_config()
    os.makedirs(bdir, exist_ok=True)
    tasks = []
    rt_objs = []
    for src in ("vrt_core.c", "vrt_explore.c", "vrt_hist.c"):
        obj = os.path.join(bdir, src.replace(".c", ".o"))
        rt_objs.append(obj)
        tasks.append((["gcc", "-O2", "-g", "-fno-pie", "-w", "-c", os.path.join(VERIF, "vrt", src), "-o", obj], obj))
    inst = ["-O1", "-g", "-fno-pie", "-fsanitize=thread", "--param", "tsan-distinguish-volatile=1", "-w",
            "-I%s/include" % REPO, "-I%s/src" % REPO, "-I%s/vrt" % VERIF, "-I%s/harness" % VERIF,
            "-include", "%s/include/config.h" % REPO, "-include", "%s/vrt/vrt_hooks.h" % VERIF] + HOOK_DEFS
    links = {}
    specinc = os.path.join(bdir, "specinc")
    if any(b.flavor == "spec" for b in builds):
        os.makedirs(os.path.join(specinc, "urcu", "map"), exist_ok=True)
        for src, dst in (("include/urcu/urcu-memb.h", "urcu/urcu-spec.h"),
                         ("include/urcu/map/urcu-memb.h", "urcu/map/urcu-spec.h")):
            t = open(os.path.join(REPO, src)).read()
            t = t.replace("urcu_memb", "urcu_spec").replace("URCU_MEMB", "URCU_SPEC").replace("urcu-memb.h", "urcu-spec.h")
            open(os.path.join(specinc, dst), "w").write(t)
    def build_tasks(b, whitebox):
        """compile commands of one build: [(argv, object)], and the objects to link"""
        fsrcs, fdefs = FLAVOR_SRCS[b.flavor]
        if whitebox and b.flavor != "spec":
            fsrcs = fsrcs[1:]
        srcs = list(COMMON_SRCS) + fsrcs + (CDS_SRCS if b.cds else []) + b.extra_repo
        objs, ts = [], []
        defines = [d for d in b.defines if whitebox or d != "-DGP_WHITEBOX"]
        flags = inst + fdefs + defines + (["-DCONFIG_RCU_USE_ATOMIC_BUILTINS"] if b.builtins else [])
        for s in srcs:
            obj = os.path.join(bdir, "%s__%s.o" % (b.name, s.replace("/", "_").replace(".c", "")))
            objs.append(obj)
            ts.append((["gcc"] + flags + ["-c", os.path.join(REPO, "src", s), "-o", obj], obj))
        if b.flavor == "spec":
            flags = flags + ["-I" + specinc]
            if not whitebox:      # white-box: the harness includes vflavor_spec.c itself (access to static state)
                obj = os.path.join(bdir, "%s__vflavor_spec.o" % b.name)
                objs.append(obj)
                ts.append((["gcc"] + flags + ["-c", os.path.join(VERIF, "vrt", "vflavor_spec.c"), "-o", obj], obj))
        hobj = os.path.join(bdir, "%s__harness.o" % b.name)
        objs.append(hobj)
        fl = "-DFLAVOR_%s" % (b.flavor or "none").upper()
        ts.append((["gcc"] + flags + [fl, "-c", os.path.join(VERIF, b.harness), "-o", hobj], hobj))
        return ts, objs

    owner = {}
    for b in builds:
        ts, objs = build_tasks(b, b.whitebox)
        for t in ts:
            owner[t[1]] = b
        tasks += ts
        links[b.name] = objs

    def run(t):
        r = sh(t[0])
        return (t, r.returncode, r.stdout)

    failed_wb = {}
    with cf.ThreadPoolExecutor(NCPU) as ex:
        for t, rc, out in ex.map(run, tasks):
            if rc:
                b = owner.get(t[1])
                if b is not None and b.whitebox:
                    failed_wb[b.name] = (b, out)
                    continue
                print("INTERNAL: compile failed: %s\n%s" % (" ".join(t[0]), out))
                sys.exit(2)
    # a white-box build reaches into static names of the library (reader registry, polling state).  If the library no longer
    # compiles that way (a harmless rename is enough), fall back to the same harness without the white-box oracle instead of failing.
    for name, (b, out) in failed_wb.items():
        print("NOTE: white-box build %s does not compile against this tree; running it without the white-box oracle (%s)" % (
            name, (out.strip().splitlines() or ["?"])[0][:200]))
        ts, objs = build_tasks(b, False)
        links[name] = objs
        for t in ts:
            r = sh(t[0])
            if r.returncode:
                print("INTERNAL: compile failed: %s\n%s" % (" ".join(t[0]), r.stdout))
                sys.exit(2)
    bins = {}
    for b in builds:
        exe = os.path.join(bdir, b.name)
        r = sh(["gcc", "-no-pie", "-o", exe] + links[b.name] + rt_objs + ["-lpthread"])
        if r.returncode:
            print("INTERNAL: link failed for %s\n%s" % (b.name, r.stdout))
            sys.exit(2)
        bins[b.name] = exe
    return bins


def load_hints(prop):
    """wall time of each job in the previous run of this check (scheduling hint only: longest first)"""
    try:
        ev = json.load(open(os.path.join(VERIF, "evidence", "%s.json" % prop)))
        return {j["job"]: j["wall_s"] for j in ev["coverage"].get("jobs", [])}
    except Exception:  # noqa
        return {}


def run_jobs(bdir, bins, jobs, global_deadline=None, hints=None):
    """Run exploration jobs keeping about NCPU worker processes busy. Returns list of (job, result)."""
    sem_lock = threading.Condition()
    avail = [NCPU]
    results = [None] * len(jobs)
    t0 = time.time()

    def run(i):
        j = jobs[i]
        w = min(j.workers, NCPU)
        with sem_lock:
            while avail[0] < w:
                sem_lock.wait()
            avail[0] -= w
        try:
            out = os.path.join(bdir, "job%03d.json" % i)
            rdir = os.path.join(bdir, "replays%03d" % i)
            os.makedirs(rdir, exist_ok=True)
            cmd = [bins[j.build], "--scenario", j.scenario, "--budget", j.budget, "--workers", str(w),
                   "--out", out, "--replay-dir", rdir]
            dl = j.deadline
            if global_deadline is not None:
                left = max(5.0, global_deadline - (time.time() - t0))
                dl = min(dl, left) if dl else left
            if dl:
                cmd += ["--deadline", "%.1f" % dl]
            if j.horizon:
                cmd += ["--horizon", str(j.horizon)]
            if COVMAP:   # development aid (bin/coverage), never set by a registered command
                cmd += ["--covmap", os.path.join(bdir, "job%03d.%s.cov" % (i, j.build))]
            for k, v in sorted(j.params.items()):
                cmd += ["--param", "%s=%s" % (k, v)]
            env = dict(os.environ)
            env.update({k: str(v) for k, v in j.env.items()})
            r = sh(cmd, env=env)
            res = None
            if os.path.exists(out):
                try:
                    res = json.load(open(out))
                except Exception as e:  # noqa
                    res = None
            results[i] = (j, r.returncode, r.stdout, res)
        finally:
            with sem_lock:
                avail[0] += w
                sem_lock.notify_all()

    order = list(range(len(jobs)))
    if hints:
        order.sort(key=lambda i: -hints.get(jobs[i].label(), 1e9))      # longest (or unknown) first: better packing
    with cf.ThreadPoolExecutor(max(1, NCPU)) as ex:
        list(ex.map(run, order))
    return results


def load_known(prop):
    path = os.path.join(VERIF, "known_findings.json")
    if not os.path.exists(path):
        return []
    return [k for k in json.load(open(path)) if k.get("property") == prop and k.get("status") == "known"]


def finish(prop, tier, t0, results, level_rule, assumptions, extra=None, replays_subdir=None, extra_viols=()):
    """Aggregate, write evidence, print verdict lines, exit."""
    seed = int(os.environ.get("VERIF_SEED", "0") or 0)
    known = load_known(prop)
    alt = os.path.realpath(REPO) != "/repo"
    outroot = os.path.join(VERIF, "build", "alt") if alt else VERIF
    rdir = os.path.join(outroot, "replays", prop)
    tot = dict(executions=0, states=0, transitions=0, nontrivial=0, outcomes=0, faults=0, promoted=0)
    exhaustive = True
    internal = []
    viols = []
    jobsum = []
    samples = []
    witnesses = [0] * 32
    by_status = {}
    for (j, rc, out, res) in results:
        if res is None or rc == 2:
            internal.append("%s: rc=%s %s" % (j.label(), rc, (out or "")[-400:]))
            continue
        tot["executions"] += res["executions"]
        tot["states"] += res["states"]
        tot["transitions"] += res["transitions"]
        tot["nontrivial"] += res["nontrivial"]
        tot["outcomes"] += res["distinct_outcomes"]
        tot["faults"] += res["faults_injected"]
        tot["promoted"] = max(tot["promoted"], res["promoted_pcs"])
        exhaustive = exhaustive and res["exhaustive"]
        for k, v in res["by_status"].items():
            by_status[k] = by_status.get(k, 0) + v
        for i, w in enumerate(res["witnesses"]):
            witnesses[i] += w
        jobsum.append(dict(job=j.label(), executions=res["executions"], states=res["states"],
                           outcomes=res["distinct_outcomes"], max_steps=res["max_steps"],
                           exhaustive=res["exhaustive"], wall_s=res["wall_s"], passes=res["passes"]))
        if len(samples) < 8 and res["samples"]:
            s = dict(res["samples"][min(len(res["samples"]) - 1, 2)])
            s["job"] = j.label()
            samples.append(s)
        for v in res["violations"]:
            viols.append((j, v))
    nviol = 0
    lines = []
    shutil.rmtree(rdir, ignore_errors=True)
    if viols:
        os.makedirs(rdir, exist_ok=True)
    for (j, v) in viols:
        text = "%s %s %s: %s" % (j.build, j.scenario, v["status"], v["message"])
        k = next((k for k in known if re.search(k["signature"], text)), None)
        if k:
            lines.append("KNOWN-FINDING: property=%s %s" % (prop, k.get("what", k["signature"])))
            continue
        nviol += 1
        dst = ""
        if v.get("replay") and os.path.exists(v["replay"]):
            h = hashlib.sha1((j.label() + v["deviations"]).encode()).hexdigest()[:10]
            dst = os.path.join(rdir, "%s.%s.%s.replay" % (j.build, j.scenario, h))
            with open(v["replay"]) as f:
                body = f.read()
            with open(dst, "w") as f:
                f.write("build %s\n" % j.build)
                f.write(body)
        if not dst:     # never an empty path: at least a description of the failing execution
            os.makedirs(rdir, exist_ok=True)
            dst = os.path.join(rdir, "%s.%s.%s.txt" % (j.build, j.scenario, hashlib.sha1((j.label() + text).encode()).hexdigest()[:10]))
            with open(dst, "w") as f:
                f.write("job %s\ndeviations %s\n%s\n" % (j.label(), v.get("deviations", ""), text))
        lines.append("VIOLATION property=%s replay=%s" % (prop, dst))
        lines.append("  # %s" % text)
    for (text, rp) in extra_viols:
        if text.startswith("INTERNAL"):
            internal.append(text)
            continue
        k = next((k for k in known if re.search(k["signature"], text)), None)
        if k:
            lines.append("KNOWN-FINDING: property=%s %s" % (prop, k.get("what", k["signature"])))
            continue
        nviol += 1
        if not rp:
            os.makedirs(rdir, exist_ok=True)
            rp = os.path.join(rdir, "extra.%s.txt" % hashlib.sha1(text.encode()).hexdigest()[:10])
            with open(rp, "w") as f:
                f.write(text + "\n")
        lines.append("VIOLATION property=%s replay=%s" % (prop, rp))
        lines.append("  # %s" % text[:700])
    if any(j.build.startswith("x") for (j, _rc, _out, _res) in results):
        level_rule = level_rule + ("; plus cross-property core jobs (builds prefixed 'x', checks/cross.py): the core scenarios of the components this "
                                   "property's guarantee is built on - grace periods / reader registration / signals / fork handlers / call_rcu / "
                                   "defer_rcu - re-run on the real code with their own oracles")
    cov = dict(
        states=tot["states"], transitions=tot["transitions"],
        traces_validated_against_impl=tot["executions"],
        evaluations=tot["executions"], distinct_nontrivial=tot["nontrivial"],
        rule=level_rule, samples=samples or [{"note": "no execution sampled"}],
        exhaustive=bool(exhaustive and not internal),
        distinct_outcomes=tot["outcomes"], faults_injected=tot["faults"], promoted_pcs=tot["promoted"],
        by_status=by_status, witnesses=witnesses, jobs=jobsum,
    )
    if extra:
        cov.update(extra)
    ev = dict(property_id=prop, tier=tier, seed=seed, level="model_checking", coverage=cov,
              assumptions=assumptions, wall_s=round(time.time() - t0, 2), violations=nviol)
    os.makedirs(os.path.join(outroot, "evidence"), exist_ok=True)
    with open(os.path.join(outroot, "evidence", "%s.json" % prop), "w") as f:
        json.dump(ev, f, indent=1)
    for l in sorted(set(l for l in lines if l.startswith("KNOWN"))):
        print(l)
    for l in lines:
        if not l.startswith("KNOWN"):
            print(l)
    print("%s %s: executions=%d states=%d transitions=%d outcomes=%d exhaustive=%s violations=%d wall=%.1fs" % (
        prop, tier, tot["executions"], tot["states"], tot["transitions"], tot["outcomes"], cov["exhaustive"],
        nviol, time.time() - t0))
    if internal:
        for m in internal:
            print("INTERNAL: " + m)
        sys.exit(2)
    sys.exit(1 if nviol else 0)
