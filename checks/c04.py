from checks.common import Build, Job
from checks import cross
from checks import c03

PROP = "C04"
BUILDS = c03.BUILDS
# c03.BUILDS already carries the cross-property builds (checks/cross.py)
RULE = ("every schedule (preemption budget, TSO delays, futex faults) of rcu_barrier scenarios on the real urcu-call-rcu-impl.h code "
        "over the specification flavor and real flavors (qsbr: caller online and offline): barrier after another thread's "
        "call_rcu, default + per-thread helpers, two concurrent barrier callers, barrier concurrent with helper "
        "creation/destruction; oracle: at the return of rcu_barrier() every callback whose call_rcu() had returned before "
        "rcu_barrier() was called has finished; rcu_barrier() returns (deadlock/livelock detection); completion object "
        "never used after free")
ASSUMPTIONS = ["specification flavor (C01 as assumption)", "x86-TSO", "vrt futex model"]
DEADLINE = {"quick": 170, "thorough": 1700}


def jobs(tier):
    J = []
    q = tier == "quick"
    S = "cr_spec"
    J.append(Job(S, "barrier", "3,0,0,0" if q else "4,0,0,0", {"reader": 0}, workers=8))
    J.append(Job(S, "barrier", "2,1,0,0", {"reader": 0}, workers=8))
    J.append(Job(S, "barrier", "2,0,1,0", {"reader": 0}, workers=8))
    J.append(Job(S, "barrier", "2,0,0,0", {"reader": 1}, workers=8))
    J.append(Job(S, "barrier", "2,0,0,0", {"reader": 0, "await_flag": 0, "second_cb": 1}, workers=8))
    J.append(Job(S, "barrier", "1,0,0,0" if q else "2,0,0,0", {"reader": 0, "per_thread": 1}, workers=8))
    J.append(Job(S, "barrier", "1,1,0,0,1" if q else "1,1,0,0", {"reader": 0, "per_thread": 1}, workers=8))
    J.append(Job(S, "barrier", "1,0,0,0,0" if q else "2,0,0,0,0", {"reader": 0, "per_cpu": 1}, {"VRT_NCPUS": 2}, workers=8))
    J.append(Job(S, "barrier", "1,0,0,0,0", {"reader": 0, "per_cpu": 1, "per_thread": 1, "await_flag": 0}, {"VRT_NCPUS": 2}, workers=8))
    J.append(Job(S, "barrier2", "1,0,0,0" if q else "2,0,0,0", workers=8))
    J.append(Job(S, "barrier2", "0,0,1,0" if q else "1,0,1,0", workers=8))
    J.append(Job(S, "barrier_churn", "1,0,0,0" if q else "2,0,0,0", workers=8))
    J.append(Job(S, "barrier_churn", "1,0,0,0" if q else "2,0,0,0", {"await_enq": 1}, workers=8))
    J.append(Job(S, "barrier_free_pending", "1,0,0,0" if q else "2,0,0,0", workers=8))
    J.append(Job(S, "barrier_free_pending", "1,0,0,0", {"yield_in_section": 0}, workers=8))
    for b, env in (("cr_memb", {"VRT_MEMBARRIER": 2}), ("cr_qsbr", {}), ("cr_bp", {"VRT_MEMBARRIER": 0})):
        p = {"qs_attempts": 1, "wait_attempts": 1, "reader": 0}
        J.append(Job(b, "barrier", "2,0,0,0", p, env, workers=8))
        J.append(Job(b, "barrier", "1,1,0,0", p, env, workers=8))
        if b == "cr_qsbr":
            J.append(Job(b, "barrier", "2,0,0,0", dict(p, barrier_offline=1), env, workers=8))
        if not q:
            J.append(Job(b, "barrier", "2,1,0,0", p, env, workers=16))
            J.append(Job(b, "barrier2", "2,0,0,0", p, env, workers=16))
    if not q:
        J.append(Job(S, "barrier2", "1,1,0,0", workers=16))
        J.append(Job(S, "barrier", "3,0,0,0", {"reader": 1}, workers=16))
    # the components this property's guarantee is built on, on the real code (checks/cross.py)
    J += cross.gp_core(tier)
    J += cross.fork_core(tier)
    return J


LEVEL_TEXT = ("Exhaustive enumeration (within budgets) of schedules, store delays and futex faults of rcu_barrier scenarios over the "
              "real call_rcu implementation; 'done before return' and termination decided on every execution.")
LEVEL_NOTE = ("Trusted: specification flavor, x86-TSO, futex model. Bounds: <=3 helpers, <=4 callbacks, <=2 barrier callers; spec "
              "P<=3 / P2D1 / P2F1 quick; real flavors P<=2 / P1D1.")
