/*
 * vrt.h - harness-side API of the vrt model-checking runtime.
 */
#ifndef VRT_H
#define VRT_H

#include <stddef.h>
#include <stdint.h>

#ifdef __cplusplus
extern "C" {
#endif

#define VRT_MAX_THREADS 16

struct vrt_scenario {
	const char *name;
	void (*run)(void);	/* executed on thread 0 under the scheduler */
	const char *desc;
};
/* provided by the harness, terminated by an entry with name == NULL */
extern struct vrt_scenario vrt_scenarios[];
/* optional: property id printed in reports */
extern const char *vrt_property_id;

/* numeric scenario/configuration parameter given on the command line (--param k=v) */
long vrt_param(const char *name, long dflt);

/* oracle verdict: record a violation, end this execution */
void vrt_fail(const char *fmt, ...) __attribute__((format(printf, 1, 2), noreturn));
/* like assert, but reported as a property violation with a message */
#define VRT_CHECK(cond, ...) do { if (!(cond)) vrt_fail(__VA_ARGS__); } while (0)
/* harness bug (not a property violation): ends the whole check with exit 2 */
void vrt_internal(const char *fmt, ...) __attribute__((format(printf, 1, 2), noreturn));

/* describe what this execution did (call/return history, values read); shown in the evidence samples */
void vrt_sample(const char *fmt, ...) __attribute__((format(printf, 1, 2)));
/* mix an observed value into this execution's outcome signature */
void vrt_outcome(unsigned long v);
/* count that a named mechanism was reached in this execution (id < 32) */
void vrt_witness(int id);
/* global logical time (number of visible steps executed so far) */
unsigned long vrt_now(void);
/* a pure scheduling point (used before the 'call' stamp of a history entry) */
void vrt_mark(void);
/* block (disabled in the scheduler) until pred(arg) is true; pred must be side-effect free */
void vrt_await(int (*pred)(void *), void *arg);
/* harness-level spin hint */
void vrt_yield(void);
/* id of the calling thread (0 = scenario main thread) */
int vrt_tid(void);
/* pthread_create for the harness's own threads: never subject to the pthread_create fault menu */
int vrt_pthread_create_nf(pthread_t *t, const pthread_attr_t *a, void *(*fn)(void *), void *arg);
/* number of threads created so far in this execution (including the main thread) */
int vrt_thread_count(void);
/* printed only when replaying verbosely */
void vrt_log(const char *fmt, ...) __attribute__((format(printf, 1, 2)));
/* harness-level reclamation: block goes to quarantine, any later access is a violation */
void vrt_quarantine(void *p);
/* true if p points into a block that was freed */
int vrt_is_freed(const void *p);
/* treat [p, p+n) as freed memory as well (for objects not obtained from malloc) */
void vrt_poison(const void *p, size_t n);


/* notebook (uninstrumented): bookkeeping stores that must not act as plain stores of the program */
void vrt_note_set(int i, unsigned long v);
unsigned long vrt_note_get(int i);
unsigned long vrt_note_inc(int i);

/* suppress announcements/scheduling points of the calling thread (oracle code at the end) */
void vrt_quiet_begin(void);
void vrt_quiet_end(void);

/* explicit-state pruning for operation-sequence enumeration (E2): 'key' is a canonical hash of the
 * state reached, 'remaining' the number of further steps this execution would still take.  Returns 1
 * (and ends the execution with verdict ok) if the state was already expanded by another path with at
 * least that many remaining steps; otherwise records it and returns 0. */
int vrt_state_seen(unsigned long key, int remaining);

/* ---- histories and linearizability (vrt_hist.c, uninstrumented) ---------------------------- */
#define VRT_HIST_MAX 24
struct vrt_hop {
	int tid, op;
	long a0, a1;
	long ret, ret2;
	unsigned long call, rett;	/* event sequence numbers; rett == 0: still pending */
};
/* records the call (after a scheduling point); returns the index of the entry */
int vrt_h_call(int op, long a0, long a1);
int vrt_h_add(int op, long a0, long a1);
void vrt_h_ret(int idx, long ret);
void vrt_h_ret2(int idx, long ret, long ret2);
int vrt_h_count(void);
struct vrt_hop *vrt_h_get(int idx);
void vrt_h_dump(char *buf, size_t n);

struct vrt_lin_spec {
	size_t state_size;				/* <= 256 */
	void (*init)(void *st);
	/* return 1 and update st iff op (with its recorded result) is legal in state st */
	int (*apply)(void *st, const struct vrt_hop *op);
};
/* 1 iff the recorded (complete) history is linearizable w.r.t. spec */
int vrt_lin_check(const struct vrt_lin_spec *spec);
/* convenience: fail the execution with the dumped history if not linearizable */
void vrt_lin_assert(const struct vrt_lin_spec *spec, const char *what);

/* ---- progress (C17): solo runs ------------------------------------------------------------- */
/* from now on only the calling thread is scheduled; any blocking/yield is a violation */
void vrt_solo_begin(const char *what, unsigned long max_steps);
void vrt_solo_end(void);
unsigned long vrt_solo_steps(void);

/* ---- virtual signals (C19) ----------------------------------------------------------------- */
/* threads in mask may be interrupted by handler at any visible op / announced access */
void vrt_signal_setup(unsigned thread_mask, void (*handler)(void));

/* ---- environment answers ------------------------------------------------------------------- */
/* cpu number reported by sched_getcpu() for the calling thread */
void vrt_set_cpu(int cpu);
/* an explicit enumerated choice owned by the harness: returns 0..n-1, alternatives cost a fault */
int vrt_choose_fault(int n);
/* an explicit enumerated free choice (no cost) */
int vrt_choose(int n);

/* ---- specification RCU flavor (E3) --------------------------------------------------------- */
void vrt_spec_read_lock(void);
void vrt_spec_read_unlock(void);
int  vrt_spec_read_ongoing(void);
void vrt_spec_synchronize(void);

/* parameters of the URCU_VERIF source hooks (one build serves all values) */
extern unsigned long vrt_param_qs_attempts, vrt_param_wait_attempts, vrt_param_defer_queue_size,
	vrt_param_min_partition_order, vrt_param_count_commit_order, vrt_param_init_reader_count, vrt_param_affinity_period;

#ifdef __cplusplus
}
#endif
#endif
