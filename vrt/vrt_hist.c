/* vrt_hist.c - call/return histories and a brute-force (Wing-Gong) linearizability checker.
 * Uninstrumented: its bookkeeping must not create scheduling points or promoted accesses. */
#include "vrt_int.h"

static struct vrt_hop H[VRT_HIST_MAX];
static int hn;
static unsigned long hseq;

int vrt_h_call(int op, long a0, long a1)
{
	int i;

	vrt_mark();
	if (hn >= VRT_HIST_MAX)
		vrt_internal("history overflow");
	i = hn++;
	H[i].tid = vrt_tid();
	H[i].op = op;
	H[i].a0 = a0;
	H[i].a1 = a1;
	H[i].call = ++hseq;
	H[i].rett = 0;
	return i;
}

/* second entry for an operation with two linearization points: same call instant, no new
 * scheduling point */
int vrt_h_add(int op, long a0, long a1)
{
	int i;

	if (hn >= VRT_HIST_MAX)
		vrt_internal("history overflow");
	i = hn++;
	H[i].tid = vrt_tid();
	H[i].op = op;
	H[i].a0 = a0;
	H[i].a1 = a1;
	H[i].call = ++hseq;
	H[i].rett = 0;
	return i;
}

void vrt_h_ret2(int idx, long ret, long ret2)
{
	H[idx].ret = ret;
	H[idx].ret2 = ret2;
	H[idx].rett = ++hseq;
	vrt_outcome((unsigned long)ret * 31 + (unsigned long)ret2 * 7 + (unsigned long)H[idx].op);
}

void vrt_h_ret(int idx, long ret) { vrt_h_ret2(idx, ret, 0); }
int vrt_h_count(void) { return hn; }
struct vrt_hop *vrt_h_get(int idx) { return &H[idx]; }

void vrt_h_dump(char *buf, size_t n)
{
	size_t o = 0;
	int i;

	buf[0] = 0;
	for (i = 0; i < hn && o + 80 < n; i++)
		o += (size_t)snprintf(buf + o, n - o, " [T%d op%d(%ld,%ld)=%ld/%ld @%lu-%lu]", H[i].tid, H[i].op,
				      H[i].a0, H[i].a1, H[i].ret, H[i].ret2, H[i].call, H[i].rett);
}

static const struct vrt_lin_spec *g_spec;

static int search(unsigned done, const void *st)
{
	char cur[256], next[256];
	int i, j;

	if (done == (1u << hn) - 1)
		return 1;
	for (i = 0; i < hn; i++) {
		int minimal = 1;

		if (done & (1u << i))
			continue;
		/* i may be linearized next only if no other remaining op returned before i was called */
		for (j = 0; j < hn; j++)
			if (j != i && !(done & (1u << j)) && H[j].rett && H[j].rett < H[i].call)
				minimal = 0;
		if (!minimal)
			continue;
		memcpy(cur, st, g_spec->state_size);
		if (!g_spec->apply(cur, &H[i]))
			continue;
		memcpy(next, cur, g_spec->state_size);
		if (search(done | (1u << i), next))
			return 1;
	}
	return 0;
}

int vrt_lin_check(const struct vrt_lin_spec *spec)
{
	char st[256];
	int i;

	if (spec->state_size > sizeof(st))
		vrt_internal("lin spec state too large");
	for (i = 0; i < hn; i++)
		if (!H[i].rett)
			vrt_internal("history entry %d has no return", i);
	g_spec = spec;
	memset(st, 0, sizeof(st));
	spec->init(st);
	return search(0, st);
}

void vrt_lin_assert(const struct vrt_lin_spec *spec, const char *what)
{
	char buf[600];
	int ok;

	vrt_quiet_begin();
	ok = vrt_lin_check(spec);
	vrt_quiet_end();
	vrt_h_dump(buf, sizeof(buf));
	vrt_sample("%s history (linearizable: %s):%s", what, ok ? "yes" : "NO", buf);
	if (!ok) {
		vrt_fail("%s: history not linearizable:%s", what, buf);
	}
}

/* ---- notebook: harness bookkeeping that must stay invisible to the memory model -------------- */
static unsigned long notes[1024];
void vrt_note_set(int i, unsigned long v) { notes[i & 1023] = v; }
unsigned long vrt_note_get(int i) { return notes[i & 1023]; }
unsigned long vrt_note_inc(int i) { return notes[i & 1023]++; }
