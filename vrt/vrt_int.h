/* vrt_int.h - shared between vrt_core.c (per-execution runtime) and vrt_explore.c (explorer) */
#ifndef VRT_INT_H
#define VRT_INT_H
#define VRT_NO_RENAME 1
#include "vrt_hooks.h"
#include "vrt.h"
#include <stdarg.h>
#include <linux/futex.h>

#define MAXT VRT_MAX_THREADS

enum { C_FREE = 0, C_P = 1, C_D = 2, C_F = 3, C_S = 4, C_Y = 5, C_N = 6 };	/* cost classes */
enum { ST_OK = 0, ST_FAIL, ST_DEADLOCK, ST_LIVELOCK, ST_HORIZON, ST_CRASH, ST_INTERNAL, ST_SOLO };

#define MAXDEV 40
struct devent { uint32_t idx; uint8_t alt; uint8_t cost; };
struct work {
	uint8_t n;
	uint8_t used[C_N];		/* cumulative cost per class */
	struct devent d[MAXDEV];
};

#define MAXALT 12
struct rec { uint32_t idx; uint32_t step; uint8_t n; uint8_t cost[MAXALT]; };
#define MAXREC (1 << 15)
#define MAXNEWPC 64
#define NWIT 32

struct result {
	int noprune;			/* in: verification re-run, vrt_state_seen() never prunes */
	int status;
	int pruned;			/* ended early at an already expanded canonical state */
	int used_seen;			/* the execution consulted the canonical-state table */
	int trunc_rec;			/* trace buffer overflowed */
	unsigned long steps;
	unsigned long first_free_step;	/* step index of the last deviation (tree-node accounting) */
	unsigned long outcome;
	unsigned long sched_hash;
	unsigned conflicts;
	unsigned nswitch;
	unsigned faults;
	unsigned witness[NWIT];
	int nnewpc;
	uintptr_t newpc[MAXNEWPC];
	int nrec;
	char msg[768];
	char sample[640];		/* harness-provided description of what this execution did (for evidence samples) */
	struct rec rec[MAXREC];
};

#define PROMO_TAB 8192
struct config {
	int budget[C_N];
	unsigned long horizon;
	unsigned long livelock_window;
	int verbose;
	int tso;			/* store buffers enabled (budget D > 0) */
	int nparams;
	char pname[32][40];
	long pval[32];
	uintptr_t promo[PROMO_TAB];	/* frozen promoted-PC set (open addressing, 0 = empty) */
	int npromo;
};

/* implemented in vrt_core.c: runs one execution in the calling (forked) process, never returns */
void vrt_run_execution(struct vrt_scenario *sc, const struct config *cfg, const struct work *w,
		       struct result *res) __attribute__((noreturn));
int vrt_promo_lookup(const struct config *cfg, uintptr_t pc);
void vrt_promo_insert(struct config *cfg, uintptr_t pc);

/* shared canonical-state table for sequence enumeration (E2); allocated by the explorer */
#define SEEN_SLOTS (1UL << 22)
struct seen_slot { unsigned long key; unsigned long meta; };
extern struct seen_slot *vrt_seen_tab;
extern int vrt_seen_unavailable;	/* set in a child that did not inherit the table: never prune */

/* development aid (bin/coverage, option --covmap): one byte per text byte, shared by all executions of a job;
 * set for the return address of every instrumented access / function entry that was executed */
extern unsigned char *vrt_covmap;
extern char __executable_start[], etext[];
static inline void vrt_cov_hit(const void *pc)
{
	uintptr_t o = (uintptr_t)pc - (uintptr_t)__executable_start;

	if (vrt_covmap && o < (uintptr_t)(etext - __executable_start) && !vrt_covmap[o])
		vrt_covmap[o] = 1;
}

static inline unsigned long vrt_mix(unsigned long h, unsigned long v)
{
	h ^= v + 0x9e3779b97f4a7c15UL + (h << 6) + (h >> 2);
	h *= 0xff51afd7ed558ccdUL;
	h ^= h >> 32;
	return h;
}
#endif
