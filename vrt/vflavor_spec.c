/*
 * vflavor_spec.c - the "specification flavor" (E3): rcu_read_lock / rcu_read_unlock /
 * synchronize_rcu are scheduler-level specification primitives (vrt_spec_*), and the repo's own
 * urcu-call-rcu-impl.h, urcu-defer-impl.h and urcu-poll-impl.h are instantiated over them,
 * exactly the way src/urcu.c instantiates them over the membarrier flavor.  The API headers
 * <urcu/urcu-spec.h> and <urcu/map/urcu-spec.h> are generated at build time from the repo's
 * urcu-memb.h / map/urcu-memb.h by renaming memb -> spec.
 */
#define URCU_NO_COMPAT_IDENTIFIERS
#include <stdio.h>
#include <pthread.h>
#include <signal.h>
#include <stdlib.h>
#include <stdint.h>
#include <string.h>
#include <errno.h>
#include <stdbool.h>
#include <poll.h>

#include <urcu/config.h>
#include <urcu/annotate.h>
#include <urcu/assert.h>
#include <urcu/arch.h>
#include <urcu/wfcqueue.h>
#define URCU_API_MAP
#include <urcu/urcu-spec.h>
#include <urcu/pointer.h>
#include <urcu/tls-compat.h>

#include "urcu-die.h"
#include "urcu-wait.h"
#include "urcu-utils.h"
#include "vrt.h"

static inline void _rcu_read_lock(void) { vrt_spec_read_lock(); }
static inline void _rcu_read_unlock(void) { vrt_spec_read_unlock(); }
static inline int _rcu_read_ongoing(void) { return vrt_spec_read_ongoing(); }
void rcu_read_lock(void) { vrt_spec_read_lock(); }
void rcu_read_unlock(void) { vrt_spec_read_unlock(); }
int rcu_read_ongoing(void) { return vrt_spec_read_ongoing(); }
void synchronize_rcu(void) { vrt_spec_synchronize(); }
void rcu_register_thread(void) { }
void rcu_unregister_thread(void) { }
void rcu_init(void) { }

static void mutex_lock(pthread_mutex_t *mutex)
{
	int ret = pthread_mutex_lock(mutex);

	if (ret)
		urcu_die(ret);
}

static void mutex_unlock(pthread_mutex_t *mutex)
{
	int ret = pthread_mutex_unlock(mutex);

	if (ret)
		urcu_die(ret);
}

static void urcu_call_rcu_exit(void);
void rcu_exit(void);
void rcu_exit(void) { urcu_call_rcu_exit(); }

DEFINE_RCU_FLAVOR(rcu_flavor);

#include "urcu-call-rcu-impl.h"
#include "urcu-defer-impl.h"
#include "urcu-poll-impl.h"
