/*
 * vrt_hooks.h - force-included (-include) in front of every translation unit of
 * /repo and of the harnesses when they are built for the vrt model checker.
 *
 * It does not copy any library logic.  It (1) pulls in the repo's own arch and
 * uatomic headers first, (2) re-points the few constructs the compiler cannot
 * instrument (inline-asm fences / RMW / cpu_relax) at vrt while still executing
 * the repo's own code for them, and (3) renames libc / pthread / syscall entry
 * points to the vrt_* models.
 */
#ifndef VRT_HOOKS_H
#define VRT_HOOKS_H

#ifndef _GNU_SOURCE
#define _GNU_SOURCE 1
#endif

/* system headers first, so that the renames below do not touch their prototypes */
#include <stddef.h>
#include <stdint.h>
#include <stdlib.h>
#include <stdio.h>
#include <string.h>
#include <errno.h>
#include <unistd.h>
#include <pthread.h>
#include <signal.h>
#include <poll.h>
#include <sched.h>
#include <time.h>
#include <fcntl.h>
#include <dirent.h>
#include <sys/mman.h>
#include <sys/types.h>
#include <sys/stat.h>
#include <sys/syscall.h>
#include <sys/time.h>
#include <sys/wait.h>
#include <assert.h>

#ifdef __cplusplus
extern "C" {
#endif

/* values of the URCU_VERIF source hooks (owned by vrt; one build serves all values) */
extern unsigned long vrt_param_qs_attempts, vrt_param_wait_attempts, vrt_param_defer_queue_size,
	vrt_param_min_partition_order, vrt_param_count_commit_order, vrt_param_init_reader_count, vrt_param_affinity_period;

/* ---- entry points implemented in vrt.c ------------------------------------------------------ */
void vrt_fence(void);
void vrt_spin_hint(void);
void vrt_rmw_pre(volatile void *addr, int size);
void vrt_rmw_post(volatile void *addr, int size);

int vrt_pthread_mutex_init(pthread_mutex_t *m, const pthread_mutexattr_t *a);
int vrt_pthread_mutex_destroy(pthread_mutex_t *m);
int vrt_pthread_mutex_lock(pthread_mutex_t *m);
int vrt_pthread_mutex_trylock(pthread_mutex_t *m);
int vrt_pthread_mutex_unlock(pthread_mutex_t *m);
int vrt_pthread_cond_init(pthread_cond_t *c, const pthread_condattr_t *a);
int vrt_pthread_cond_destroy(pthread_cond_t *c);
int vrt_pthread_cond_wait(pthread_cond_t *c, pthread_mutex_t *m);
int vrt_pthread_cond_signal(pthread_cond_t *c);
int vrt_pthread_cond_broadcast(pthread_cond_t *c);
int vrt_pthread_create(pthread_t *t, const pthread_attr_t *a, void *(*fn)(void *), void *arg);
int vrt_pthread_join(pthread_t t, void **ret);
int vrt_pthread_detach(pthread_t t);
void vrt_pthread_exit(void *ret) __attribute__((noreturn));
int vrt_pthread_key_create(pthread_key_t *k, void (*dtor)(void *));
int vrt_pthread_key_delete(pthread_key_t k);
int vrt_pthread_setspecific(pthread_key_t k, const void *v);
void *vrt_pthread_getspecific(pthread_key_t k);
int vrt_pthread_sigmask(int how, const sigset_t *set, sigset_t *old);
int vrt_pthread_atfork(void (*prepare)(void), void (*parent)(void), void (*child)(void));
long vrt_syscall(long nr, ...);
int vrt_poll(struct pollfd *fds, nfds_t n, int timeout);
int vrt_usleep(unsigned usec);
unsigned vrt_sleep(unsigned sec);
int vrt_sched_yield(void);
int vrt_sched_getcpu(void);
int vrt_sched_setaffinity(pid_t pid, size_t sz, const cpu_set_t *set);
int vrt_pthread_setaffinity_np(pthread_t th, size_t sz, const cpu_set_t *set);
long vrt_sysconf(int name);
void *vrt_malloc(size_t n);
void *vrt_calloc(size_t n, size_t m);
void *vrt_realloc(void *p, size_t n);
int vrt_posix_memalign(void **p, size_t al, size_t n);
void vrt_free(void *p);
void *vrt_mmap(void *addr, size_t len, int prot, int flags, int fd, off_t off);
int vrt_munmap(void *addr, size_t len);
void *vrt_mremap(void *old, size_t olen, size_t nlen, int flags, ...);
pid_t vrt_fork(void);
int vrt_open(const char *path, int flags, ...);
DIR *vrt_opendir(const char *path);

#ifdef __cplusplus
}
#endif

#ifndef VRT_NO_RENAME

/* ---- (1) the repo's own arch layer, then re-point fences and cpu_relax ---------------------- */
#include <urcu/arch.h>

#undef cmm_mb
#define cmm_mb()	do { __asm__ __volatile__ ("mfence":::"memory"); vrt_fence(); } while (0)
#undef caa_cpu_relax
#define caa_cpu_relax()	do { __asm__ __volatile__ ("rep; nop":::"memory"); vrt_spin_hint(); } while (0)

/* ---- (2) the repo's own uatomic layer; its inline asm stays the code that runs -------------- */
#include <urcu/uatomic.h>

#ifndef CONFIG_RCU_USE_ATOMIC_BUILTINS
/*
 * x86.h routes every read-modify-write through UATOMIC_COMPAT(insn), which expands to
 * _uatomic_<insn>.  Wrap the *_mo front-ends so that vrt sees a scheduling point with the
 * address before the locked instruction runs (and can drain the store buffer, as a locked
 * instruction does), then let the repo's own asm do the work.
 */
#define VRT_RMW_RET(addr, call_on_a)						\
	__extension__ ({							\
		__typeof__(addr) _vrt_a = (addr);				\
		vrt_rmw_pre(_vrt_a, sizeof(*_vrt_a));				\
		__typeof__(*_vrt_a) _vrt_r = call_on_a;				\
		vrt_rmw_post(_vrt_a, sizeof(*_vrt_a));				\
		_vrt_r;								\
	})
#define VRT_RMW_VOID(addr, call_on_a)						\
	do {									\
		__typeof__(addr) _vrt_a = (addr);				\
		vrt_rmw_pre(_vrt_a, sizeof(*_vrt_a));				\
		call_on_a;							\
		vrt_rmw_post(_vrt_a, sizeof(*_vrt_a));				\
	} while (0)

#undef uatomic_cmpxchg_mo
#define uatomic_cmpxchg_mo(addr, old, _new, mos, mof)				\
	__extension__ ({							\
		__typeof__(addr) _vrt_a = (addr);				\
		__typeof__(old) _vrt_o = (old);				\
		__typeof__(_new) _vrt_n = (_new);				\
		vrt_rmw_pre(_vrt_a, sizeof(*_vrt_a));				\
		__typeof__(*_vrt_a) _vrt_r = UATOMIC_COMPAT(cmpxchg(_vrt_a, _vrt_o, _vrt_n)); \
		vrt_rmw_post(_vrt_a, sizeof(*_vrt_a));				\
		_vrt_r;								\
	})
#undef uatomic_xchg_mo
#define uatomic_xchg_mo(addr, v, mo)						\
	__extension__ ({							\
		__typeof__(addr) _vrt_a = (addr);				\
		__typeof__(v) _vrt_v = (v);				\
		vrt_rmw_pre(_vrt_a, sizeof(*_vrt_a));				\
		__typeof__(*_vrt_a) _vrt_r = UATOMIC_COMPAT(xchg(_vrt_a, _vrt_v)); \
		vrt_rmw_post(_vrt_a, sizeof(*_vrt_a));				\
		_vrt_r;								\
	})
#undef uatomic_add_return_mo
#define uatomic_add_return_mo(addr, v, mo)					\
	__extension__ ({							\
		__typeof__(addr) _vrt_a = (addr);				\
		__typeof__(v) _vrt_v = (v);				\
		vrt_rmw_pre(_vrt_a, sizeof(*_vrt_a));				\
		__typeof__(*_vrt_a) _vrt_r = UATOMIC_COMPAT(add_return(_vrt_a, _vrt_v)); \
		vrt_rmw_post(_vrt_a, sizeof(*_vrt_a));				\
		_vrt_r;								\
	})
#undef uatomic_and_mo
#define uatomic_and_mo(addr, v, mo)						\
	do {									\
		__typeof__(addr) _vrt_a = (addr);				\
		__typeof__(v) _vrt_v = (v);				\
		vrt_rmw_pre(_vrt_a, sizeof(*_vrt_a));				\
		UATOMIC_COMPAT(and(_vrt_a, _vrt_v));				\
		vrt_rmw_post(_vrt_a, sizeof(*_vrt_a));				\
	} while (0)
#undef uatomic_or_mo
#define uatomic_or_mo(addr, v, mo)						\
	do {									\
		__typeof__(addr) _vrt_a = (addr);				\
		__typeof__(v) _vrt_v = (v);				\
		vrt_rmw_pre(_vrt_a, sizeof(*_vrt_a));				\
		UATOMIC_COMPAT(or(_vrt_a, _vrt_v));				\
		vrt_rmw_post(_vrt_a, sizeof(*_vrt_a));				\
	} while (0)
#undef uatomic_add_mo
#define uatomic_add_mo(addr, v, mo)						\
	do {									\
		__typeof__(addr) _vrt_a = (addr);				\
		__typeof__(v) _vrt_v = (v);				\
		vrt_rmw_pre(_vrt_a, sizeof(*_vrt_a));				\
		UATOMIC_COMPAT(add(_vrt_a, _vrt_v));				\
		vrt_rmw_post(_vrt_a, sizeof(*_vrt_a));				\
	} while (0)
#undef uatomic_inc_mo
#define uatomic_inc_mo(addr, mo)						\
	do {									\
		__typeof__(addr) _vrt_a = (addr);				\
		vrt_rmw_pre(_vrt_a, sizeof(*_vrt_a));				\
		UATOMIC_COMPAT(inc(_vrt_a));					\
		vrt_rmw_post(_vrt_a, sizeof(*_vrt_a));				\
	} while (0)
#undef uatomic_dec_mo
#define uatomic_dec_mo(addr, mo)						\
	do {									\
		__typeof__(addr) _vrt_a = (addr);				\
		vrt_rmw_pre(_vrt_a, sizeof(*_vrt_a));				\
		UATOMIC_COMPAT(dec(_vrt_a));					\
		vrt_rmw_post(_vrt_a, sizeof(*_vrt_a));				\
	} while (0)
#endif /* !CONFIG_RCU_USE_ATOMIC_BUILTINS */

/* ---- (3) libc / pthread / syscall renames --------------------------------------------------- */
#define pthread_mutex_init	vrt_pthread_mutex_init
#define pthread_mutex_destroy	vrt_pthread_mutex_destroy
#define pthread_mutex_lock	vrt_pthread_mutex_lock
#define pthread_mutex_trylock	vrt_pthread_mutex_trylock
#define pthread_mutex_unlock	vrt_pthread_mutex_unlock
#define pthread_cond_init	vrt_pthread_cond_init
#define pthread_cond_destroy	vrt_pthread_cond_destroy
#define pthread_cond_wait	vrt_pthread_cond_wait
#define pthread_cond_signal	vrt_pthread_cond_signal
#define pthread_cond_broadcast	vrt_pthread_cond_broadcast
#define pthread_create		vrt_pthread_create
#define pthread_join		vrt_pthread_join
#define pthread_detach		vrt_pthread_detach
#define pthread_exit		vrt_pthread_exit
#define pthread_key_create	vrt_pthread_key_create
#define pthread_key_delete	vrt_pthread_key_delete
#define pthread_setspecific	vrt_pthread_setspecific
#define pthread_getspecific	vrt_pthread_getspecific
#define pthread_sigmask		vrt_pthread_sigmask
#define pthread_atfork		vrt_pthread_atfork
#define syscall			vrt_syscall
#define poll			vrt_poll
#define usleep			vrt_usleep
#define sleep			vrt_sleep
#define sched_yield		vrt_sched_yield
#define sched_getcpu		vrt_sched_getcpu
#define sched_setaffinity	vrt_sched_setaffinity
#define pthread_setaffinity_np	vrt_pthread_setaffinity_np
#define sysconf			vrt_sysconf
#define malloc			vrt_malloc
#define calloc			vrt_calloc
#define realloc			vrt_realloc
#define posix_memalign		vrt_posix_memalign
#define free			vrt_free
#define mmap			vrt_mmap
#define munmap			vrt_munmap
#define mremap			vrt_mremap
#define fork			vrt_fork
#define open			vrt_open
#define opendir			vrt_opendir

#endif /* !VRT_NO_RENAME */

#endif /* VRT_HOOKS_H */
