/*
 * vrt_core.c - per-execution runtime: controlled scheduler, x86-TSO store buffers,
 * happens-before race detector (used only to promote plain accesses to scheduling points),
 * quarantine allocator, pthread / futex / membarrier models, virtual signals, spec RCU flavor.
 *
 * Compiled WITHOUT instrumentation.  One instance lives in each forked execution process.
 */
#include "vrt_int.h"
#include <sys/prctl.h>

/* ------------------------------------------------------------------------------------------ */
/* operations                                                                                 */
/* ------------------------------------------------------------------------------------------ */
enum opkind {
	OP_NONE = 0, OP_START, OP_LOAD, OP_STORE, OP_RMW, OP_FENCE, OP_PLAIN_R, OP_PLAIN_W,
	OP_LOCK, OP_TRYLOCK, OP_UNLOCK, OP_COND_WAIT, OP_COND_RESUME, OP_COND_SIG,
	OP_CREATE, OP_JOIN, OP_EXIT, OP_FUTEX_WAIT, OP_FUTEX_RESUME, OP_FUTEX_WAKE,
	OP_MEMBARRIER, OP_YIELD, OP_MARK, OP_AWAIT, OP_SYS, OP_FORK, OP_SPEC, OP_NKINDS
};
static const char *opname[] = {
	"none", "start", "load", "store", "rmw", "fence", "plain_r", "plain_w",
	"lock", "trylock", "unlock", "cond_wait", "cond_resume", "cond_sig",
	"create", "join", "exit", "futex_wait", "futex_resume", "futex_wake",
	"membarrier", "yield", "mark", "await", "sys", "fork", "spec"
};

struct op {
	int kind;
	uintptr_t addr;
	int size;
	int (*pred)(void *);
	void *parg;
	int target;
};

#define SBMAX 32
struct sbent { uintptr_t addr; int size; uint64_t val; uint32_t vc[MAXT]; };

#define MAXKEYS 16
enum { T_FREE = 0, T_LIVE, T_DONE };

struct vthread {
	int id;
	int go;				/* hand-off futex word */
	int state;
	pthread_t pt;
	void *(*fn)(void *);
	void *arg;
	void *retval;
	struct op pend;
	int yielded;
	unsigned long last_run;
	int sbn;
	struct sbent sb[SBMAX];
	uint32_t vc[MAXT];
	int fwoken;
	int csignaled;
	int sigblocked;
	int signest;
	int cpu;
	void *keyval[MAXKEYS];
	int spec_nest;
	unsigned long spec_gen;
	int detached;
	int joined;
	uintptr_t stack_lo, stack_sz;
	int in_rt;			/* inside runtime / predicate: ignore announcements */
};

static struct vthread T[MAXT];
static int nthreads;
static __thread struct vthread *self;
static int cur;				/* id of the running thread */

static const struct config *cfg;
static const struct work *wk;
static struct result *res;
static struct vrt_scenario *scen;

static unsigned long g_step;		/* visible steps executed */
static uint32_t g_choice;		/* choice points passed */
static int g_devpos;			/* next deviation in wk->d */
static unsigned long g_last_change;	/* step of the last state-changing op */
static int g_remain[C_N];
static int g_buffered;			/* total store-buffer entries of all threads */
static int g_finishing;
static int g_solo = -1;
static unsigned long g_solo_start, g_solo_max;
static const char *g_solo_what;
static unsigned g_sigmask;
static void (*g_sighandler)(void);
static int g_child_of_fork;
static int g_noprune;
static unsigned long g_path_hash;	/* hash of the deviations consumed so far */

unsigned long vrt_param_qs_attempts = 100, vrt_param_wait_attempts = 1000,
	vrt_param_defer_queue_size = 1 << 12, vrt_param_min_partition_order = 12,
	vrt_param_count_commit_order = 10, vrt_param_init_reader_count = 8, vrt_param_affinity_period = 256;

/* ------------------------------------------------------------------------------------------ */
/* low level                                                                                  */
/* ------------------------------------------------------------------------------------------ */
static long sys_futex(int *addr, int op, int val)
{
	return syscall(SYS_futex, addr, op, val, NULL, NULL, 0);
}

static void park(struct vthread *t)
{
	while (!__atomic_load_n(&t->go, __ATOMIC_ACQUIRE))
		sys_futex(&t->go, FUTEX_WAIT, 0);
	__atomic_store_n(&t->go, 0, __ATOMIC_RELAXED);
}

static void unpark(struct vthread *t)
{
	__atomic_store_n(&t->go, 1, __ATOMIC_RELEASE);
	sys_futex(&t->go, FUTEX_WAKE, 1);
}

static void finish(int status, const char *fmt, ...) __attribute__((noreturn, format(printf, 2, 3)));
static void finish(int status, const char *fmt, ...)
{
	va_list ap;

	if (__atomic_exchange_n(&g_finishing, 1, __ATOMIC_SEQ_CST)) {
		/* someone else is already finishing; never return */
		for (;;)
			pause();
	}
	res->status = status;
	res->steps = g_step;
	va_start(ap, fmt);
	vsnprintf(res->msg, sizeof(res->msg), fmt, ap);
	va_end(ap);
	if (cfg->verbose)
		fprintf(stderr, "[vrt] finish status=%d steps=%lu msg=%s\n", status, g_step, res->msg);
	_exit(0);
}

void vrt_internal(const char *fmt, ...)
{
	va_list ap;
	char buf[600];

	va_start(ap, fmt);
	vsnprintf(buf, sizeof(buf), fmt, ap);
	va_end(ap);
	finish(ST_INTERNAL, "%s", buf);
}

void vrt_fail(const char *fmt, ...)
{
	va_list ap;
	char buf[600];

	va_start(ap, fmt);
	vsnprintf(buf, sizeof(buf), fmt, ap);
	va_end(ap);
	finish(ST_FAIL, "%s", buf);
}

void vrt_log(const char *fmt, ...)
{
	va_list ap;

	if (!cfg || !cfg->verbose)
		return;
	fprintf(stderr, "[T%d @%lu] ", self ? self->id : -1, g_step);
	va_start(ap, fmt);
	vfprintf(stderr, fmt, ap);
	va_end(ap);
	fputc('\n', stderr);
}

long vrt_param(const char *name, long dflt)
{
	int i;

	if (!cfg)
		return dflt;
	for (i = 0; i < cfg->nparams; i++)
		if (!strcmp(cfg->pname[i], name))
			return cfg->pval[i];
	return dflt;
}

void vrt_sample(const char *fmt, ...)
{
	va_list ap;

	if (!res)
		return;
	va_start(ap, fmt);
	vsnprintf(res->sample, sizeof(res->sample), fmt, ap);
	va_end(ap);
}

void vrt_outcome(unsigned long v) { res->outcome = vrt_mix(res->outcome, v); }
void vrt_witness(int id) { if (res && id >= 0 && id < NWIT) res->witness[id]++; }
unsigned long vrt_now(void) { return g_step; }
int vrt_tid(void) { return self ? self->id : 0; }

int vrt_promo_lookup(const struct config *c, uintptr_t pc)
{
	unsigned h = (unsigned)((pc * 0x9e3779b97f4a7c15UL) >> 40) & (PROMO_TAB - 1);

	while (c->promo[h]) {
		if (c->promo[h] == pc)
			return 1;
		h = (h + 1) & (PROMO_TAB - 1);
	}
	return 0;
}

void vrt_promo_insert(struct config *c, uintptr_t pc)
{
	unsigned h = (unsigned)((pc * 0x9e3779b97f4a7c15UL) >> 40) & (PROMO_TAB - 1);

	if (c->npromo >= PROMO_TAB / 2)
		return;
	while (c->promo[h]) {
		if (c->promo[h] == pc)
			return;
		h = (h + 1) & (PROMO_TAB - 1);
	}
	c->promo[h] = pc;
	c->npromo++;
}

/* ------------------------------------------------------------------------------------------ */
/* choices                                                                                    */
/* ------------------------------------------------------------------------------------------ */
/*
 * One enumerated choice point with n alternatives; cost[i] is the cost class of alternative i
 * (alternative 0 is the default and must be free).  Alternatives whose class has no remaining
 * budget are not offered (but keep their index).
 */
static int choose(int n, const uint8_t *cost)
{
	uint32_t idx = g_choice++;
	int alt = 0, i, useful = 0;

	if (n > MAXALT)
		finish(ST_INTERNAL, "choice point with %d alternatives (max %d)", n, MAXALT);
	if (g_devpos < wk->n && wk->d[g_devpos].idx == idx) {
		alt = wk->d[g_devpos].alt;
		if (alt >= n || wk->d[g_devpos].cost != cost[alt])
			finish(ST_INTERNAL, "replay divergence at choice %u: alt %d of %d (cost %d/%d)",
			       idx, alt, n, wk->d[g_devpos].cost, alt < n ? cost[alt] : -1);
		if (cost[alt] != C_FREE)
			g_remain[cost[alt]]--;
		g_path_hash = vrt_mix(g_path_hash, ((unsigned long)idx << 8) | (unsigned long)alt);
		g_devpos++;
		if (g_devpos == wk->n)
			res->first_free_step = g_step;
		if (cfg->verbose)
			fprintf(stderr, "[vrt] choice %u -> alt %d/%d (cost class %d)\n", idx, alt, n, cost[alt]);
		return alt;
	}
	if (g_devpos < wk->n && wk->d[g_devpos].idx < idx)
		finish(ST_INTERNAL, "replay divergence: deviation %u skipped (now at %u)",
		       wk->d[g_devpos].idx, idx);
	if (g_devpos < wk->n)
		return 0;	/* still inside the prefix: parent already branched here */
	for (i = 1; i < n; i++)
		if (cost[i] == C_FREE || g_remain[cost[i]] > 0)
			useful = 1;
	if (!useful)
		return 0;
	if (res->nrec >= MAXREC) {
		res->trunc_rec = 1;
		return 0;
	}
	{
		struct rec *r = &res->rec[res->nrec++];

		r->idx = idx;
		r->step = (uint32_t)g_step;
		r->n = (uint8_t)n;
		for (i = 0; i < n; i++)
			r->cost[i] = (cost[i] == C_FREE || g_remain[cost[i]] > 0) ? cost[i] : 0xff;
	}
	return 0;
}

int vrt_choose_fault(int n)
{
	uint8_t c[MAXALT];
	int i;

	for (i = 0; i < n && i < MAXALT; i++)
		c[i] = i ? C_F : C_FREE;
	i = choose(n, c);
	if (i)
		res->faults++;
	return i;
}

int vrt_choose(int n)
{
	uint8_t c[MAXALT];

	memset(c, C_FREE, sizeof(c));
	if (n > MAXALT) {
		/* two-level choice: block, then element within the block */
		int blocks = (n + MAXALT - 1) / MAXALT, hi, lo, rest;

		if (blocks > MAXALT)
			finish(ST_INTERNAL, "vrt_choose(%d): too many alternatives", n);
		hi = choose(blocks, c);
		rest = n - hi * MAXALT;
		lo = choose(rest > MAXALT ? MAXALT : rest, c);
		return hi * MAXALT + lo;
	}
	return n > 1 ? choose(n, c) : 0;
}

int vrt_state_seen(unsigned long key, int remaining)
{
	unsigned long pid = vrt_mix(g_path_hash, g_choice) & ~0xffUL, meta;
	unsigned long h;
	int n;

	res->used_seen = 1;
	if (!vrt_seen_tab || g_noprune || vrt_seen_unavailable)
		return 0;
	/* the remaining budgets are part of the state: equal program states with different budgets
	 * left have different sets of explored futures */
	key = vrt_mix(key, (unsigned long)g_remain[C_P] | ((unsigned long)g_remain[C_D] << 8) |
		      ((unsigned long)g_remain[C_F] << 16) | ((unsigned long)g_remain[C_S] << 24) |
		      ((unsigned long)g_remain[C_Y] << 32));
	if (!key)
		key = 1;
	h = (key * 0x9e3779b97f4a7c15UL) >> 42;	/* 22 bits */
	for (n = 0; n < 64; n++, h = (h + 1) & (SEEN_SLOTS - 1)) {
		struct seen_slot *s = &vrt_seen_tab[h];
		unsigned long k = __atomic_load_n(&s->key, __ATOMIC_ACQUIRE);

		if (!k) {
			unsigned long exp = 0;

			if (!__atomic_compare_exchange_n(&s->key, &exp, key, 0, __ATOMIC_ACQ_REL, __ATOMIC_ACQUIRE)) {
				if (exp != key)
					continue;
			} else {
				__atomic_store_n(&s->meta, pid | (unsigned long)(remaining & 0xff), __ATOMIC_RELEASE);
				return 0;
			}
		} else if (k != key)
			continue;
		meta = __atomic_load_n(&s->meta, __ATOMIC_ACQUIRE);
		if ((meta & ~0xffUL) == pid)
			return 0;		/* the same path being re-executed (prefix of a child) */
		if ((int)(meta & 0xff) >= remaining && meta) {
			res->pruned = 1;
			finish(ST_OK, "pruned: canonical state already expanded");
		}
		__atomic_store_n(&s->meta, pid | (unsigned long)(remaining & 0xff), __ATOMIC_RELEASE);
		return 0;
	}
	return 0;	/* neighbourhood full: just do not prune */
}

#include "vrt_mem.inc"
#include "vrt_sched.inc"
#include "vrt_models.inc"
