/*
 * vrt_explore.c - stateless, budget-bounded depth-first exploration of all executions of a
 * scenario.  One forked process per execution, W parallel workers, deviation lists as the
 * unit of work and as the replay format.  Compiled WITHOUT instrumentation.
 */
#include "vrt_int.h"
#include <sys/personality.h>
#include <sys/resource.h>
#include <sys/prctl.h>

#define STACKCAP (1 << 20)
#define MAXVIOL 8
#define OUTTAB (1 << 16)
#define MAXSAMPLES 6

struct viol {
	struct work w;
	int status;
	unsigned long steps;
	char msg[768];
};

struct shared {
	int lock;
	int stop;
	long top;
	long pending;			/* queued + in flight */
	long max_top;
	int overflow_stack, overflow_dev, trunc_rec;
	unsigned long pruned;
	unsigned long execs, steps_total, tree_nodes, max_steps, nontrivial, switches, faults;
	unsigned long by_status[8];
	unsigned long witness[NWIT];
	unsigned long outtab[OUTTAB];
	unsigned long distinct_outcomes;
	int nviol;
	struct viol viol[MAXVIOL];
	int nsamples;
	struct viol samples[MAXSAMPLES];
	int npend_pc;
	uintptr_t pend_pc[1024];
	int internal;
	char internal_msg[768];
	struct config cfg;
	struct work stack[STACKCAP];
};

struct seen_slot *vrt_seen_tab;
unsigned char *vrt_covmap;
int vrt_seen_unavailable;
static struct shared *S;
static struct vrt_scenario *scen;
static int nworkers = 4;
static double deadline_s = 0;
static struct timespec t_start;
static int keep_going;
/* fork scalability: every execution is a fork of a worker.  Mappings that all workers share (the work stack S, the canonical-state
 * table) would make every fork and exit of every execution take the same kernel locks; the workers therefore keep a private copy of
 * the configuration for their children, own private result slots, and exclude S (always) and the state table (when the scenario does
 * not use it) from what a child inherits. */
static struct config child_cfg;
static int child_cfg_valid;
static int seen_inherited = 1;

static double elapsed(void)
{
	struct timespec t;

	clock_gettime(CLOCK_MONOTONIC, &t);
	return (double)(t.tv_sec - t_start.tv_sec) + (double)(t.tv_nsec - t_start.tv_nsec) / 1e9;
}

static void lock(void)
{
	while (__atomic_exchange_n(&S->lock, 1, __ATOMIC_ACQUIRE))
		while (__atomic_load_n(&S->lock, __ATOMIC_RELAXED))
			__builtin_ia32_pause();
}

static void unlock(void) { __atomic_store_n(&S->lock, 0, __ATOMIC_RELEASE); }

static int is_violation(int st)
{
	return st == ST_FAIL || st == ST_DEADLOCK || st == ST_LIVELOCK || st == ST_HORIZON ||
	       st == ST_CRASH || st == ST_SOLO;
}

static const char *stname(int st)
{
	static const char *n[] = { "ok", "fail", "deadlock", "livelock", "horizon", "crash", "internal", "solo" };

	return st >= 0 && st < 8 ? n[st] : "?";
}

/* run one execution in a forked child; returns status */
static int run_one(const struct work *w, struct result *r, int verbose)
{
	pid_t pid;
	int st;

	r->status = -1;
	r->msg[0] = 0;
	r->nrec = 0;
	if (!child_cfg_valid)		/* direct callers (replay): workers refresh their copy at the start of each pass */
		child_cfg = S->cfg;
	pid = fork();
	if (pid < 0) {
		perror("fork");
		exit(2);
	}
	if (pid == 0) {
		struct config *c = &child_cfg;

		vrt_seen_unavailable = !seen_inherited;

		if (!verbose) {
			int fd = open("/dev/null", O_WRONLY);

			if (fd >= 0) {
				dup2(fd, 2);
				dup2(fd, 1);
				close(fd);
			}
		}
		vrt_run_execution(scen, c, w, r);
	}
	while (waitpid(pid, &st, 0) < 0 && errno == EINTR)
		;
	if (WIFSIGNALED(st) && WTERMSIG(st) == SIGALRM) {
		r->status = ST_INTERNAL;
		snprintf(r->msg, sizeof(r->msg), "execution exceeded the 120 s wall-clock watchdog (runtime hang)");
	} else if (WIFSIGNALED(st)) {
		if (r->status <= 0 || r->status == -1) {
			r->status = ST_CRASH;
			if (!r->msg[0])
				snprintf(r->msg, sizeof(r->msg), "crash: killed by signal %d", WTERMSIG(st));
		}
	} else if (r->status == -1) {
		r->status = ST_CRASH;
		snprintf(r->msg, sizeof(r->msg), "execution process exited with code %d without a verdict",
			 WEXITSTATUS(st));
	}
	return r->status;
}

static void note_outcome(unsigned long h)
{
	unsigned i = (unsigned)(h >> 20) & (OUTTAB - 1);
	int n = 0;

	if (!h)
		h = 1;
	while (S->outtab[i] && S->outtab[i] != h && n++ < OUTTAB - 2)
		i = (i + 1) & (OUTTAB - 1);
	if (!S->outtab[i]) {
		S->outtab[i] = h;
		S->distinct_outcomes++;
	}
}

static void worker(int wid, struct result *r, struct result *r2)
{
	int nrun = 0;

	(void)wid;
	child_cfg = S->cfg;
	child_cfg_valid = 1;
	/* own result slots: a shared-memory object that only this worker and its current child map */
	r = mmap(NULL, sizeof(*r) * 2, PROT_READ | PROT_WRITE, MAP_SHARED | MAP_ANONYMOUS | MAP_NORESERVE, -1, 0);
	if (r == MAP_FAILED) {
		perror("mmap worker results");
		_exit(2);
	}
	r2 = r + 1;
	madvise(S, sizeof(*S), MADV_DONTFORK);
	for (;;) {
		struct work w;
		int got = 0, st, i, a;

		lock();
		if (S->top > 0 && !S->stop) {
			w = S->stack[--S->top];
			got = 1;
		} else if (S->pending == 0 || S->stop) {
			unlock();
			return;
		}
		unlock();
		if (!got) {
			usleep(200);
			continue;
		}
		if (deadline_s > 0 && elapsed() > deadline_s) {
			lock();
			S->stop = 2;
			S->pending--;
			unlock();
			return;
		}
		r->noprune = 0;
		r->used_seen = 0;
		st = run_one(&w, r, 0);
		if (++nrun == 1 && !r->used_seen && vrt_seen_tab && seen_inherited && st != ST_INTERNAL) {
			/* the scenario does not use the canonical-state table: later children need not inherit it */
			madvise(vrt_seen_tab, SEEN_SLOTS * sizeof(struct seen_slot), MADV_DONTFORK);
			seen_inherited = 0;
		}
		if (st == ST_INTERNAL) {
			lock();
			S->internal = 1;
			snprintf(S->internal_msg, sizeof(S->internal_msg), "%s", r->msg);
			S->stop = 1;
			S->pending--;
			unlock();
			return;
		}
		if (is_violation(st)) {
			/* replay before report: must reproduce identically */
			int st2;

			r2->noprune = 1;
			st2 = run_one(&w, r2, 0);

			if (st2 != st || r2->steps != r->steps || r2->sched_hash != r->sched_hash) {
				lock();
				S->internal = 1;
				snprintf(S->internal_msg, sizeof(S->internal_msg),
					 "non-deterministic replay: first %s/%lu/%#lx (%s) then %s/%lu/%#lx (%s)",
					 stname(st), r->steps, r->sched_hash, r->msg, stname(st2), r2->steps,
					 r2->sched_hash, r2->msg);
				S->stop = 1;
				S->pending--;
				unlock();
				return;
			}
		}
		lock();
		S->execs++;
		S->pruned += r->pruned ? 1 : 0;
		S->steps_total += r->steps;
		S->tree_nodes += r->steps - r->first_free_step;
		if (r->steps > S->max_steps)
			S->max_steps = r->steps;
		if (r->conflicts)
			S->nontrivial++;
		S->switches += r->nswitch;
		S->faults += r->faults;
		S->by_status[st & 7]++;
		for (i = 0; i < NWIT; i++)
			S->witness[i] += r->witness[i] ? 1 : 0;
		note_outcome(vrt_mix(r->outcome, (unsigned long)st));
		if (r->trunc_rec)
			S->trunc_rec = 1;
		for (i = 0; i < r->nnewpc; i++) {
			int k, dup = 0;

			for (k = 0; k < S->npend_pc; k++)
				if (S->pend_pc[k] == r->newpc[i])
					dup = 1;
			if (!dup && S->npend_pc < 1024)
				S->pend_pc[S->npend_pc++] = r->newpc[i];
		}
		if (S->nsamples < MAXSAMPLES && (S->execs < 3 || (S->execs % 97) == 0)) {
			struct viol *v = &S->samples[S->nsamples++];

			v->w = w;
			v->status = st;
			v->steps = r->steps;
			snprintf(v->msg, sizeof(v->msg), "outcome=%#lx switches=%u %s", r->outcome, r->nswitch, r->sample);
		}
		if (is_violation(st)) {
			int dup = 0;

			for (i = 0; i < S->nviol; i++)
				if (!strcmp(S->viol[i].msg, r->msg))
					dup = 1;
			if (!dup && S->nviol < MAXVIOL) {
				struct viol *v = &S->viol[S->nviol++];

				v->w = w;
				v->status = st;
				v->steps = r->steps;
				memcpy(v->msg, r->msg, sizeof(v->msg));
			}
			if (!keep_going || S->nviol >= MAXVIOL)
				S->stop = 1;
		} else {
			/* children: one per alternative of every choice point after the prefix */
			for (i = r->nrec - 1; i >= 0; i--) {
				struct rec *rc = &r->rec[i];

				for (a = 1; a < rc->n; a++) {
					struct work *nw;

					if (rc->cost[a] == 0xff)
						continue;
					if (rc->cost[a] != C_FREE &&
					    w.used[rc->cost[a]] + 1 > S->cfg.budget[rc->cost[a]])
						continue;
					if (w.n >= MAXDEV) {
						S->overflow_dev = 1;
						continue;
					}
					if (S->top >= STACKCAP) {
						S->overflow_stack = 1;
						continue;
					}
					nw = &S->stack[S->top++];
					*nw = w;
					nw->d[nw->n].idx = rc->idx;
					nw->d[nw->n].alt = (uint8_t)a;
					nw->d[nw->n].cost = rc->cost[a];
					nw->n++;
					if (rc->cost[a] != C_FREE)
						nw->used[rc->cost[a]]++;
					S->pending++;
				}
			}
			if (S->top > S->max_top)
				S->max_top = S->top;
		}
		S->pending--;
		unlock();
	}
}

static void devlist_str(const struct work *w, char *buf, size_t n)
{
	size_t o = 0;
	int i;

	buf[0] = 0;
	for (i = 0; i < w->n && o + 24 < n; i++)
		o += (size_t)snprintf(buf + o, n - o, "%s%u:%u:%u", i ? " " : "", w->d[i].idx, w->d[i].alt,
				      w->d[i].cost);
}

static void json_str(FILE *f, const char *s)
{
	fputc('"', f);
	for (; *s; s++) {
		if (*s == '"' || *s == '\\')
			fprintf(f, "\\%c", *s);
		else if ((unsigned char)*s < 0x20)
			fprintf(f, " ");
		else
			fputc(*s, f);
	}
	fputc('"', f);
}

static void write_replay(const char *path, const struct viol *v)
{
	FILE *f = fopen(path, "w");
	char buf[2048];
	int i;
	const char *e;

	if (!f)
		return;
	fprintf(f, "scenario %s\n", scen->name);
	fprintf(f, "budget %d,%d,%d,%d,%d\n", S->cfg.budget[C_P], S->cfg.budget[C_D], S->cfg.budget[C_F],
		S->cfg.budget[C_S], S->cfg.budget[C_Y]);
	fprintf(f, "horizon %lu\n", S->cfg.horizon);
	for (i = 0; i < S->cfg.nparams; i++)
		fprintf(f, "param %s=%ld\n", S->cfg.pname[i], S->cfg.pval[i]);
	if ((e = getenv("VRT_MEMBARRIER")))
		fprintf(f, "env VRT_MEMBARRIER=%s\n", e);
	if ((e = getenv("VRT_NCPUS")))
		fprintf(f, "env VRT_NCPUS=%s\n", e);
	fprintf(f, "promoted");
	for (i = 0; i < PROMO_TAB; i++)
		if (S->cfg.promo[i])
			fprintf(f, " %#lx", (unsigned long)S->cfg.promo[i]);
	fprintf(f, "\n");
	devlist_str(&v->w, buf, sizeof(buf));
	fprintf(f, "deviations %s\n", buf);
	fprintf(f, "expect %s steps=%lu\n", stname(v->status), v->steps);
	fprintf(f, "message %s\n", v->msg);
	fclose(f);
}

static void add_param(struct config *c, const char *kv)
{
	const char *eq = strchr(kv, '=');
	size_t n;

	if (!eq || c->nparams >= 32) {
		fprintf(stderr, "bad --param %s\n", kv);
		exit(2);
	}
	n = (size_t)(eq - kv);
	if (n > 39)
		n = 39;
	memcpy(c->pname[c->nparams], kv, n);
	c->pname[c->nparams][n] = 0;
	c->pval[c->nparams] = strtol(eq + 1, NULL, 0);
	c->nparams++;
}

static void parse_budget(struct config *c, const char *s)
{
	int p = 0, d = 0, f = 0, g = 0, y = 2;

	sscanf(s, "%d,%d,%d,%d,%d", &p, &d, &f, &g, &y);
	c->budget[C_Y] = y;
	c->budget[C_P] = p;
	c->budget[C_D] = d;
	c->budget[C_F] = f;
	c->budget[C_S] = g;
	c->tso = d > 0;
}

static int parse_devs(struct work *w, char *s)
{
	char *tok;

	memset(w, 0, sizeof(*w));
	for (tok = strtok(s, " \n"); tok; tok = strtok(NULL, " \n")) {
		unsigned a, b, c;

		if (sscanf(tok, "%u:%u:%u", &a, &b, &c) != 3)
			return -1;
		if (w->n >= MAXDEV)
			return -1;
		w->d[w->n].idx = a;
		w->d[w->n].alt = (uint8_t)b;
		w->d[w->n].cost = (uint8_t)c;
		if (c)
			w->used[c]++;
		w->n++;
	}
	return 0;
}

static struct vrt_scenario *find_scenario(const char *name)
{
	struct vrt_scenario *s;

	for (s = vrt_scenarios; s->name; s++)
		if (!strcmp(s->name, name))
			return s;
	return NULL;
}

static int do_replay(const char *path, int verbose)
{
	FILE *f = fopen(path, "r");
	char line[65536];
	struct work w;
	struct result *r;
	char expect[64] = "";
	unsigned long esteps = 0;
	int st;

	if (!f) {
		perror(path);
		return 2;
	}
	memset(&w, 0, sizeof(w));
	S->cfg.horizon = 20000;
	while (fgets(line, sizeof(line), f)) {
		char *nl = strchr(line, '\n');

		if (nl)
			*nl = 0;
		if (!strncmp(line, "scenario ", 9)) {
			scen = find_scenario(line + 9);
			if (!scen) {
				fprintf(stderr, "unknown scenario %s\n", line + 9);
				return 2;
			}
		} else if (!strncmp(line, "budget ", 7))
			parse_budget(&S->cfg, line + 7);
		else if (!strncmp(line, "horizon ", 8))
			S->cfg.horizon = strtoul(line + 8, NULL, 0);
		else if (!strncmp(line, "param ", 6))
			add_param(&S->cfg, line + 6);
		else if (!strncmp(line, "env ", 4)) {
			char *eq = strchr(line + 4, '=');

			if (eq) {
				*eq = 0;
				if (!getenv(line + 4) || strcmp(getenv(line + 4), eq + 1)) {
					/* constructors already ran: re-exec with the right environment */
					setenv(line + 4, eq + 1, 1);
					setenv("VRT_REEXEC_ENV", "1", 1);
				}
			}
		} else if (!strncmp(line, "promoted", 8)) {
			char *tok = strtok(line + 8, " ");

			for (; tok; tok = strtok(NULL, " "))
				vrt_promo_insert(&S->cfg, strtoul(tok, NULL, 0));
		} else if (!strncmp(line, "deviations", 10)) {
			if (parse_devs(&w, line + 10)) {
				fprintf(stderr, "bad deviation list\n");
				return 2;
			}
		} else if (!strncmp(line, "expect ", 7))
			sscanf(line + 7, "%63s steps=%lu", expect, &esteps);
	}
	fclose(f);
	if (!scen) {
		fprintf(stderr, "replay file names no scenario\n");
		return 2;
	}
	if (getenv("VRT_REEXEC_ENV") && !getenv("VRT_REEXEC_DONE")) {
		extern char **environ;
		char *argv[5];
		char self_path[512];
		ssize_t n = readlink("/proc/self/exe", self_path, sizeof(self_path) - 1);

		if (n > 0) {
			self_path[n] = 0;
			setenv("VRT_REEXEC_DONE", "1", 1);
			argv[0] = self_path;
			argv[1] = (char *)"--replay";
			argv[2] = (char *)path;
			argv[3] = verbose ? (char *)"-v" : NULL;
			argv[4] = NULL;
			execve(self_path, argv, environ);
		}
	}
	S->cfg.livelock_window = S->cfg.horizon / 4 > 1500 ? S->cfg.horizon / 4 : 1500;
	S->cfg.verbose = verbose;
	r = mmap(NULL, sizeof(*r), PROT_READ | PROT_WRITE, MAP_SHARED | MAP_ANONYMOUS, -1, 0);
	r->noprune = 1;
	st = run_one(&w, r, 1);
	printf("REPLAY scenario=%s status=%s steps=%lu expected=%s/%lu\n", scen->name, stname(st), r->steps,
	       expect, esteps);
	printf("REPLAY message: %s\n", r->msg);
	if (st == ST_INTERNAL)
		return 2;
	return is_violation(st) ? 1 : 0;
}

int main(int argc, char **argv)
{
	struct result *slots;
	const char *out = NULL, *replay_dir = NULL, *replay = NULL, *sname = NULL, *covfile = NULL;
	int i, verbose = 0, pass, rc = 0;
	pid_t *pids;
	FILE *f;

	if (!getenv("VRT_NOASLR")) {
		setenv("VRT_NOASLR", "1", 1);
		if (personality(ADDR_NO_RANDOMIZE) != -1)
			execv("/proc/self/exe", argv);
	}
	clock_gettime(CLOCK_MONOTONIC, &t_start);
	S = mmap(NULL, sizeof(*S), PROT_READ | PROT_WRITE, MAP_SHARED | MAP_ANONYMOUS | MAP_NORESERVE, -1, 0);
	if (S == MAP_FAILED) {
		perror("mmap shared");
		return 2;
	}
	vrt_seen_tab = mmap(NULL, SEEN_SLOTS * sizeof(struct seen_slot), PROT_READ | PROT_WRITE,
			   MAP_SHARED | MAP_ANONYMOUS | MAP_NORESERVE, -1, 0);
	if (vrt_seen_tab == MAP_FAILED)
		vrt_seen_tab = NULL;
	S->cfg.horizon = 20000;
	S->cfg.budget[C_P] = 2;
	S->cfg.budget[C_Y] = 2;
	for (i = 1; i < argc; i++) {
		if (!strcmp(argv[i], "--list")) {
			struct vrt_scenario *s;

			for (s = vrt_scenarios; s->name; s++)
				printf("%s\t%s\n", s->name, s->desc ? s->desc : "");
			return 0;
		} else if (!strcmp(argv[i], "--scenario") && i + 1 < argc)
			sname = argv[++i];
		else if (!strcmp(argv[i], "--budget") && i + 1 < argc)
			parse_budget(&S->cfg, argv[++i]);
		else if (!strcmp(argv[i], "--param") && i + 1 < argc)
			add_param(&S->cfg, argv[++i]);
		else if (!strcmp(argv[i], "--workers") && i + 1 < argc)
			nworkers = atoi(argv[++i]);
		else if (!strcmp(argv[i], "--horizon") && i + 1 < argc)
			S->cfg.horizon = strtoul(argv[++i], NULL, 0);
		else if (!strcmp(argv[i], "--deadline") && i + 1 < argc)
			deadline_s = atof(argv[++i]);
		else if (!strcmp(argv[i], "--out") && i + 1 < argc)
			out = argv[++i];
		else if (!strcmp(argv[i], "--covmap") && i + 1 < argc) {
			covfile = argv[++i];
			vrt_covmap = mmap(NULL, (size_t)(etext - __executable_start), PROT_READ | PROT_WRITE,
					  MAP_SHARED | MAP_ANONYMOUS, -1, 0);
			if (vrt_covmap == MAP_FAILED)
				vrt_covmap = NULL;
		}
		else if (!strcmp(argv[i], "--replay-dir") && i + 1 < argc)
			replay_dir = argv[++i];
		else if (!strcmp(argv[i], "--replay") && i + 1 < argc)
			replay = argv[++i];
		else if (!strcmp(argv[i], "--keep-going"))
			keep_going = 1;
		else if (!strcmp(argv[i], "-v"))
			verbose++;
		else {
			fprintf(stderr, "unknown argument %s\n", argv[i]);
			return 2;
		}
	}
	if (replay)
		return do_replay(replay, verbose ? verbose : 1);
	if (!sname || !(scen = find_scenario(sname))) {
		fprintf(stderr, "need --scenario NAME (see --list)\n");
		return 2;
	}
	S->cfg.livelock_window = S->cfg.horizon / 4 > 1500 ? S->cfg.horizon / 4 : 1500;
	S->cfg.verbose = 0;
	slots = NULL;		/* every worker maps its own pair of result slots */
	pids = calloc((size_t)nworkers, sizeof(*pids));

	int real_budget[C_N], discovery = 1;

	memcpy(real_budget, S->cfg.budget, sizeof(real_budget));
	/* cheap discovery passes (P<=1, nothing else) find the racing plain accesses first, so the
	 * expensive pass at the real budget rarely has to be repeated */
	if (real_budget[C_P] + real_budget[C_D] + real_budget[C_F] + real_budget[C_S] > 1) {
		memset(S->cfg.budget, 0, sizeof(S->cfg.budget));
		S->cfg.budget[C_P] = real_budget[C_P] > 0;
		S->cfg.tso = 0;
	} else
		discovery = 0;

	for (pass = 1;; pass++) {
		int grew = 0;

		/* reset per-pass state */
		S->top = 0;
		S->pending = 0;
		S->stop = 0;
		S->execs = S->steps_total = S->tree_nodes = S->max_steps = S->nontrivial = 0;
		S->switches = S->faults = 0;
		S->pruned = 0;
		if (vrt_seen_tab)
			if (madvise(vrt_seen_tab, SEEN_SLOTS * sizeof(struct seen_slot), MADV_REMOVE))
				memset(vrt_seen_tab, 0, SEEN_SLOTS * sizeof(struct seen_slot));
		S->max_top = 0;
		memset(S->by_status, 0, sizeof(S->by_status));
		memset(S->witness, 0, sizeof(S->witness));
		memset(S->outtab, 0, sizeof(S->outtab));
		S->distinct_outcomes = 0;
		S->nviol = 0;
		S->nsamples = 0;
		S->npend_pc = 0;
		memset(&S->stack[0], 0, sizeof(S->stack[0]));
		S->top = 1;
		S->pending = 1;
		for (i = 0; i < nworkers; i++) {
			pids[i] = fork();
			if (pids[i] == 0) {
				prctl(PR_SET_PDEATHSIG, SIGKILL);
				worker(i, slots, slots);
				_exit(0);
			}
		}
		for (i = 0; i < nworkers; i++) {
			int st;

			waitpid(pids[i], &st, 0);
			if (!WIFEXITED(st) || WEXITSTATUS(st)) {
				S->internal = 1;
				snprintf(S->internal_msg, sizeof(S->internal_msg), "worker %d died (status %#x)", i, st);
			}
		}
		if (S->internal)
			break;
		if (S->nviol)
			break;
		for (i = 0; i < S->npend_pc; i++)
			if (!vrt_promo_lookup(&S->cfg, S->pend_pc[i])) {
				vrt_promo_insert(&S->cfg, S->pend_pc[i]);
				grew++;
			}
		if (verbose)
			fprintf(stderr, "[explore] pass %d: %lu executions, %d newly promoted PCs (total %d)\n", pass,
				S->execs, grew, S->cfg.npromo);
		if (S->stop == 2)
			break;
		if (!grew && discovery) {
			discovery = 0;
			memcpy(S->cfg.budget, real_budget, sizeof(real_budget));
			S->cfg.tso = real_budget[C_D] > 0;
			continue;
		}
		if (!grew)
			break;
		if (pass >= 12) {
			S->internal = 1;
			snprintf(S->internal_msg, sizeof(S->internal_msg), "promotion did not converge");
			break;
		}
	}

	if (S->internal) {
		fprintf(stderr, "INTERNAL scenario=%s: %s\n", scen->name, S->internal_msg);
		rc = 2;
	} else if (S->nviol)
		rc = 1;

	if (covfile && vrt_covmap && (f = fopen(covfile, "w"))) {
		uintptr_t o;

		for (o = 0; o < (uintptr_t)(etext - __executable_start); o++)
			if (vrt_covmap[o])
				fprintf(f, "%lx\n", (unsigned long)((uintptr_t)__executable_start + o));
		fclose(f);
	}
	if (out && (f = fopen(out, "w"))) {
		char buf[2048];
		int exhaustive = !S->stop && !S->overflow_dev && !S->overflow_stack && !S->trunc_rec && !S->internal;

		fprintf(f, "{\n \"scenario\": \"%s\",\n \"budget\": [%d,%d,%d,%d,%d],\n", scen->name, S->cfg.budget[C_P],
			S->cfg.budget[C_D], S->cfg.budget[C_F], S->cfg.budget[C_S], S->cfg.budget[C_Y]);
		fprintf(f, " \"params\": {");
		for (i = 0; i < S->cfg.nparams; i++)
			fprintf(f, "%s\"%s\": %ld", i ? ", " : "", S->cfg.pname[i], S->cfg.pval[i]);
		fprintf(f, "},\n \"passes\": %d,\n \"executions\": %lu,\n \"transitions\": %lu,\n \"states\": %lu,\n", pass,
			S->execs, S->steps_total, S->tree_nodes);
		fprintf(f, " \"max_steps\": %lu,\n \"nontrivial\": %lu,\n \"distinct_outcomes\": %lu,\n", S->max_steps,
			S->nontrivial, S->distinct_outcomes);
		fprintf(f, " \"switches\": %lu,\n \"faults_injected\": %lu,\n \"promoted_pcs\": %d,\n", S->switches, S->faults,
			S->cfg.npromo);
		fprintf(f, " \"pruned\": %lu,\n", S->pruned);
		fprintf(f, " \"max_queue\": %ld,\n \"exhaustive\": %s,\n \"deadline_hit\": %s,\n", S->max_top,
			exhaustive ? "true" : "false", S->stop == 2 ? "true" : "false");
		fprintf(f, " \"overflow\": {\"stack\": %d, \"deviations\": %d, \"trace\": %d},\n", S->overflow_stack,
			S->overflow_dev, S->trunc_rec);
		fprintf(f, " \"by_status\": {");
		for (i = 0; i < 8; i++)
			fprintf(f, "%s\"%s\": %lu", i ? ", " : "", stname(i), S->by_status[i]);
		fprintf(f, "},\n \"witnesses\": [");
		for (i = 0; i < NWIT; i++)
			fprintf(f, "%s%lu", i ? "," : "", S->witness[i]);
		fprintf(f, "],\n \"samples\": [");
		for (i = 0; i < S->nsamples; i++) {
			devlist_str(&S->samples[i].w, buf, sizeof(buf));
			fprintf(f, "%s{\"deviations\": \"%s\", \"status\": \"%s\", \"steps\": %lu, \"info\": ", i ? ", " : "",
				buf, stname(S->samples[i].status), S->samples[i].steps);
			json_str(f, S->samples[i].msg);
			fprintf(f, "}");
		}
		fprintf(f, "],\n \"violations\": [");
		for (i = 0; i < S->nviol; i++) {
			char path[1024] = "";

			if (replay_dir) {
				snprintf(path, sizeof(path), "%s/%s.%d.replay", replay_dir, scen->name, i);
				write_replay(path, &S->viol[i]);
			}
			devlist_str(&S->viol[i].w, buf, sizeof(buf));
			fprintf(f, "%s{\"status\": \"%s\", \"steps\": %lu, \"deviations\": \"%s\", \"replay\": \"%s\", \"message\": ",
				i ? ", " : "", stname(S->viol[i].status), S->viol[i].steps, buf, path);
			json_str(f, S->viol[i].msg);
			fprintf(f, "}");
		}
		fprintf(f, "],\n \"internal\": ");
		json_str(f, S->internal ? S->internal_msg : "");
		fprintf(f, ",\n \"wall_s\": %.3f\n}\n", elapsed());
		fclose(f);
	}
	if (verbose || !out) {
		printf("scenario=%s budget=%d,%d,%d,%d execs=%lu states=%lu transitions=%lu outcomes=%lu nontrivial=%lu "
		       "maxsteps=%lu promoted=%d passes=%d viol=%d wall=%.2fs\n",
		       scen->name, S->cfg.budget[C_P], S->cfg.budget[C_D], S->cfg.budget[C_F], S->cfg.budget[C_S], S->execs,
		       S->tree_nodes, S->steps_total, S->distinct_outcomes, S->nontrivial, S->max_steps, S->cfg.npromo, pass,
		       S->nviol, elapsed());
		for (i = 0; i < S->nviol; i++) {
			char buf[2048];

			devlist_str(&S->viol[i].w, buf, sizeof(buf));
			printf("  violation[%d] %s steps=%lu devs=[%s]: %s\n", i, stname(S->viol[i].status),
			       S->viol[i].steps, buf, S->viol[i].msg);
		}
	}
	return rc;
}
