#!/bin/sh
set -e
B=/verif/build/smoke; mkdir -p $B
R=${VERIF_REPO:-/repo}
CF="-O1 -g -fno-pie -fsanitize=thread --param tsan-distinguish-volatile=1 -I$R/include -I$R/src -I/verif/vrt -include $R/include/config.h -include /verif/vrt/vrt_hooks.h -w"
gcc -O2 -g -fno-pie -Wall -Wextra -c /verif/vrt/vrt_core.c -o $B/vrt_core.o
gcc -O2 -g -fno-pie -Wall -Wextra -c /verif/vrt/vrt_explore.c -o $B/vrt_explore.o
gcc $CF -c /verif/harness/smoke.c -o $B/smoke.o
gcc -no-pie -o $B/smoke $B/smoke.o $B/vrt_core.o $B/vrt_explore.o -lpthread
