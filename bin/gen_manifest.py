#!/usr/bin/env python3
"""Regenerates MANIFEST.json from checks/*.py metadata (LEVEL_TEXT, LEVEL_NOTE, TECHNIQUE, DESIGN_REF)."""
import importlib, json, os, sys
HERE = os.path.dirname(os.path.dirname(os.path.abspath(__file__)))
sys.path.insert(0, HERE)
props = [json.loads(l) for l in open(os.path.join(HERE, "properties.jsonl"))]
checks, na = [], []
for p in props:
    pid = p["id"]
    try:
        m = importlib.import_module("checks.%s" % pid.lower())
    except ModuleNotFoundError:
        na.append(dict(property_id=pid, reason="check not implemented yet in this round (planned, see DESIGN.md section 6)"))
        continue
    if getattr(m, "NOT_APPLICABLE", None):
        na.append(dict(property_id=pid, reason=m.NOT_APPLICABLE))
        continue
    checks.append(dict(
        property_id=pid,
        quick_cmd="bin/check %s --tier quick" % pid,
        thorough_cmd="bin/check %s --tier thorough" % pid,
        evidence_file="/verif/evidence/%s.json" % pid,
        replay_cmd_template="bin/check %s --replay {path}" % pid,
        engine=getattr(m, "ENGINE", "vrt"),
        level_claimed=dict(category="model_checking", text=m.LEVEL_TEXT, design_ref=getattr(m, "DESIGN_REF", "DESIGN.md section 6")),
        level_note=m.LEVEL_NOTE,
        technique=getattr(m, "TECHNIQUE", "stateless preemption-bounded model checking of the real code under a controlled scheduler with x86-TSO store buffers"),
    ))
man = dict(
    version=1,
    setup_cmd="true",
    hooks=dict(guard="URCU_VERIF",
               enable="checks compile /repo sources with -DURCU_VERIF -DURCU_VERIF_<CONST>=vrt_param_<const> (see checks/common.py HOOK_DEFS)",
               baseline_off_cmd="make -C /repo -k check",
               source_commits=[l.split()[0] for l in os.popen("git -C /repo log --format='%h %s' 0342b17..HEAD").read().splitlines() if "verif hooks" in l],
               add_only=True),
    engines=[dict(name="vrt", path="/verif/vrt", serves_properties=[c["property_id"] for c in checks],
                  kind_free_text="stateless model checker for the real C code: private TSan-ABI runtime (atomics performed by the runtime, plain accesses announced), controlled scheduler over real pthreads, x86-TSO store buffers, fault/signal injection, fork-per-execution DFS over deviation lists")],
    checks=checks,
    not_applicable=na,
    notes="see DESIGN.md; known findings in known_findings.json",
)
json.dump(man, open(os.path.join(HERE, "MANIFEST.json"), "w"), indent=1)
print("checks:", [c["property_id"] for c in checks], "n/a:", [n["property_id"] for n in na])
